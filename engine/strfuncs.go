package main

import (
	"go/types"
	"path/filepath"
	"strconv"
	"strings"
)

func strSlice(v Value) []string {
	var out []string
	for _, e := range v.(Slice) {
		out = append(out, e.(string))
	}
	return out
}
func toStrSlice(ss []string) Value {
	out := make(Slice, len(ss))
	for i, s := range ss {
		out[i] = s
	}
	return out
}

func init() {
	reg(func(r *Run, fr *frame, args []Value) Value { return args[0] }, "internal/abi.NoEscape")
	reg(noop, "(*strings.Builder).copyCheck")
	reg(func(r *Run, fr *frame, args []Value) Value {
		return strings.Join(strSlice(args[0]), args[1].(string))
	}, "strings.Join")
	reg(func(r *Run, fr *frame, args []Value) Value {
		return filepath.Join(strSlice(args[0])...)
	}, "path/filepath.Join", "path.Join")
	s1 := func(f func(string) string) interceptFn {
		return func(r *Run, fr *frame, args []Value) Value { return f(args[0].(string)) }
	}
	reg(s1(filepath.Dir), "path/filepath.Dir")
	reg(s1(filepath.Base), "path/filepath.Base")
	reg(s1(filepath.Clean), "path/filepath.Clean")
	reg(s1(filepath.Ext), "path/filepath.Ext")
	reg(s1(strings.ToUpper), "strings.ToUpper")
	reg(s1(strings.ToLower), "strings.ToLower")
	reg(s1(strings.TrimSpace), "strings.TrimSpace")
	reg(s1(strconv.Quote), "strconv.Quote")
	reg(func(r *Run, fr *frame, args []Value) Value {
		return toStrSlice(strings.Fields(args[0].(string)))
	}, "strings.Fields")
	reg(func(r *Run, fr *frame, args []Value) Value {
		return toStrSlice(strings.Split(args[0].(string), args[1].(string)))
	}, "strings.Split")
	reg(func(r *Run, fr *frame, args []Value) Value {
		n := r.concretizeInt(fr, args[2].(*Term), true)
		return toStrSlice(strings.SplitN(args[0].(string), args[1].(string), int(n)))
	}, "strings.SplitN")
	reg(func(r *Run, fr *frame, args []Value) Value {
		n := r.concretizeInt(fr, args[3].(*Term), true)
		return strings.Replace(args[0].(string), args[1].(string), args[2].(string), int(n))
	}, "strings.Replace")
	reg(func(r *Run, fr *frame, args []Value) Value {
		return strings.ReplaceAll(args[0].(string), args[1].(string), args[2].(string))
	}, "strings.ReplaceAll")
	reg(func(r *Run, fr *frame, args []Value) Value {
		n := r.concretizeInt(fr, args[1].(*Term), true)
		return strings.Repeat(args[0].(string), int(n))
	}, "strings.Repeat")
	reg(func(r *Run, fr *frame, args []Value) Value {
		return r.tt.Bool(strings.HasPrefix(args[0].(string), args[1].(string)))
	}, "strings.HasPrefix")
	reg(func(r *Run, fr *frame, args []Value) Value {
		return r.tt.Bool(strings.HasSuffix(args[0].(string), args[1].(string)))
	}, "strings.HasSuffix")
	reg(func(r *Run, fr *frame, args []Value) Value {
		return r.tt.Bool(strings.Contains(args[0].(string), args[1].(string)))
	}, "strings.Contains")
	reg(func(r *Run, fr *frame, args []Value) Value {
		return strings.TrimPrefix(args[0].(string), args[1].(string))
	}, "strings.TrimPrefix")
	reg(func(r *Run, fr *frame, args []Value) Value {
		return strings.TrimSuffix(args[0].(string), args[1].(string))
	}, "strings.TrimSuffix")
	reg(func(r *Run, fr *frame, args []Value) Value {
		return strings.Trim(args[0].(string), args[1].(string))
	}, "strings.Trim")
	reg(func(r *Run, fr *frame, args []Value) Value {
		return strings.TrimRight(args[0].(string), args[1].(string))
	}, "strings.TrimRight")
	reg(func(r *Run, fr *frame, args []Value) Value {
		n := r.concretizeInt(fr, args[0].(*Term), true)
		return strconv.Itoa(int(n))
	}, "strconv.Itoa")
	reg(func(r *Run, fr *frame, args []Value) Value {
		n, err := strconv.Atoi(args[0].(string))
		if err != nil {
			return Tuple{r.tt.Const(64, 0), r.newError(fr, err.Error())}
		}
		return Tuple{r.tt.Const(64, uint64(int64(n))), Iface{}}
	}, "strconv.Atoi")
	reg(func(r *Run, fr *frame, args []Value) Value {
		n := r.concretizeInt(fr, args[0].(*Term), true)
		b := r.concretizeInt(fr, args[1].(*Term), true)
		return strconv.FormatInt(n, int(b))
	}, "strconv.FormatInt")
}

// unsafe.String / StringData / SliceData used by strings.Builder
func (r *Run) unsafeBuiltin(fr *frame, name string, args []Value) Value {
	switch name {
	case "SliceData":
		s := args[0].(Slice)
		if s == nil {
			return (*Value)(nil)
		}
		return UPtr{back: s[:cap(s)][0:len(s):cap(s)], elem: types.Typ[types.Uint8], as: types.Typ[types.Uint8]}
	case "String":
		n := int(r.concretizeInt(fr, args[1].(*Term), true))
		if n == 0 {
			return ""
		}
		up, ok := args[0].(UPtr)
		if !ok {
			fr.unsupported("unsafe.String on %T", args[0])
		}
		b := make([]byte, n)
		for i := 0; i < n; i++ {
			b[i] = byte(r.concretizeInt(fr, up.back[i].(*Term), false))
		}
		return string(b)
	case "StringData":
		s := args[0].(string)
		back := make(Slice, len(s))
		for i := 0; i < len(s); i++ {
			back[i] = r.tt.Const(8, uint64(s[i]))
		}
		return UPtr{back: back, elem: types.Typ[types.Uint8], as: types.Typ[types.Uint8]}
	}
	fr.unsupported("unsafe.%s", name)
	return nil
}
