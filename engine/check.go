package main

import (
	"bufio"
	"bytes"
	"encoding/json"
	"fmt"
	"os"
	"os/exec"
	"path/filepath"
	"regexp"
	"sort"
	"strconv"
	"strings"
	"time"
)

// checks.json: property -> spec
type tierSpec struct {
	Params       map[string]int `json:"params"`
	MaxPaths     int            `json:"maxpaths"`
	MaxSteps     int            `json:"maxsteps"`
	MaxLoop      int            `json:"maxloop"`
	Solver       string         `json:"solver"`
	TimeoutMS    int            `json:"timeout_ms"`
	Sched        int            `json:"sched"`
	Ctx          *int           `json:"ctx"`
	EnvFires     int            `json:"envfires"`
	Real         bool           `json:"real"`
	MapOrders    bool           `json:"maporders"`
	SelectChoice bool           `json:"selectchoice"`
	SelectLast   bool           `json:"selectlast"`
	EnvLazy      bool           `json:"envlazy"`
	EnvBoundOK   bool           `json:"envbound_ok"`
	LazyFires    int            `json:"lazyfires"`
	NoModels     bool           `json:"nomodels"`
	NPBound      int            `json:"npbound"`
	Race         bool           `json:"race"`
	Skip         bool           `json:"skip"`
	Witnesses    int            `json:"witness_replays"`
}

type harnessSpec struct {
	Name     string              `json:"name"`
	Dir      string              `json:"dir"` // package dir relative to repo root ("." = root)
	What     string              `json:"what"`
	Tiers    map[string]tierSpec `json:"tiers"`
	NoReplay bool                `json:"no_replay"` // violations cannot be replayed natively (e.g. schedules); reported as inconclusive unless known
}

type propSpec struct {
	Level       string        `json:"level"`
	Harnesses   []harnessSpec `json:"harnesses"`
	Assumptions []string      `json:"assumptions"`
	Outside     []string      `json:"outside"`
}

type knownFinding struct {
	Property string   `json:"property"`
	Harness  string   `json:"harness"`
	Label    string   `json:"label"`
	Site     string   `json:"site,omitempty"`
	Tags     []string `json:"tags,omitempty"`
	Status   string   `json:"status"` // open | fixed
	Commit   string   `json:"commit,omitempty"`
	What     string   `json:"what"`
}

func loadKnown() []knownFinding {
	var out []knownFinding
	f, err := os.Open(filepath.Join(verifDir, "known_findings.jsonl"))
	if err != nil {
		return nil
	}
	defer f.Close()
	sc := bufio.NewScanner(f)
	sc.Buffer(make([]byte, 1<<20), 1<<20)
	for sc.Scan() {
		line := strings.TrimSpace(sc.Text())
		if line == "" || strings.HasPrefix(line, "#") {
			continue
		}
		var k knownFinding
		if json.Unmarshal([]byte(line), &k) == nil {
			out = append(out, k)
		}
	}
	return out
}

func hasAll(have, want []string) bool {
	for _, w := range want {
		ok := false
		for _, h := range have {
			if h == w {
				ok = true
			}
		}
		if !ok {
			return false
		}
	}
	return true
}

func (k *knownFinding) matches(prop, harness string, v *Violation) bool {
	if k.Status != "open" || k.Property != prop {
		return false
	}
	if k.Harness != "" && k.Harness != harness {
		return false
	}
	if k.Label != "" && k.Label != v.Label {
		return false
	}
	if k.Site != "" && !strings.HasPrefix(v.Site, k.Site) {
		return false
	}
	return hasAll(v.Tags, k.Tags)
}

type replayDoc struct {
	Property string            `json:"property"`
	Harness  string            `json:"harness"`
	Dir      string            `json:"dir"`
	Kind     string            `json:"kind"`
	Label    string            `json:"label"`
	Site     string            `json:"site"`
	Msg      string            `json:"msg"`
	Inputs   map[string]uint64 `json:"inputs"`
	Params   map[string]int    `json:"params"`
	Sched    []int             `json:"sched,omitempty"`
	Stack    []string          `json:"stack,omitempty"`
	Tags     []string          `json:"tags,omitempty"`
}

// ---- native replay

type nativeBuild struct {
	dir    string // package dir (relative)
	bin    string
	err    error
	output string
}

var harnessFuncRe = regexp.MustCompile(`(?m)^func (verif[A-Za-z0-9_]+)\(\)`)

// buildNative compiles the package's test binary with harness files overlaid
// and all of the package's own *_test.go files removed.
func buildNative(repoDir, relDir, outDir string, race bool) *nativeBuild {
	nb := &nativeBuild{dir: relDir}
	sub := "root"
	pdir := repoDir
	if relDir != "." && relDir != "" {
		sub = strings.ReplaceAll(relDir, "/", "__")
		pdir = filepath.Join(repoDir, relDir)
	}
	hdir := filepath.Join(verifDir, "harness", sub)
	files, _ := filepath.Glob(filepath.Join(hdir, "*.go"))
	if len(files) == 0 {
		nb.err = fmt.Errorf("no harness files in %s", hdir)
		return nb
	}
	pkgName, err := packageNameOf(pdir)
	if err != nil {
		nb.err = err
		return nb
	}
	os.MkdirAll(outDir, 0755)
	repl := map[string]string{}
	var names []string
	for _, f := range files {
		repl[filepath.Join(pdir, "zz_verif_"+filepath.Base(f))] = f
		b, _ := os.ReadFile(f)
		for _, m := range harnessFuncRe.FindAllStringSubmatch(string(b), -1) {
			names = append(names, m[1])
		}
	}
	tmpl, err := os.ReadFile(filepath.Join(verifDir, "harness", "api.go.tmpl"))
	if err != nil {
		nb.err = err
		return nb
	}
	apiFile := filepath.Join(outDir, "api_"+sub+".go")
	os.WriteFile(apiFile, []byte(strings.Replace(string(tmpl), "package PKGNAME", "package "+pkgName, 1)), 0644)
	repl[filepath.Join(pdir, "zz_verif_api.go")] = apiFile
	// remove the package's own tests
	tests, _ := filepath.Glob(filepath.Join(pdir, "*_test.go"))
	for _, t := range tests {
		repl[t] = ""
	}
	var sb strings.Builder
	sb.WriteString("package " + pkgName + "\n\nimport (\n\t\"fmt\"\n\t\"os\"\n\t\"testing\"\n)\n\n")
	sb.WriteString("func TestVerifReplay(t *testing.T) {\n\tswitch os.Getenv(\"VERIF_HARNESS\") {\n")
	sort.Strings(names)
	for _, n := range names {
		sb.WriteString(fmt.Sprintf("\tcase %q:\n\t\t%s()\n", n, n))
	}
	sb.WriteString("\tdefault:\n\t\tfmt.Println(\"VERIF-NO-SUCH-HARNESS\")\n\t\tos.Exit(6)\n\t}\n\tfmt.Println(\"VERIF-END\")\n}\n")
	testFile := filepath.Join(outDir, "replay_"+sub+"_test.go")
	os.WriteFile(testFile, []byte(sb.String()), 0644)
	repl[filepath.Join(pdir, "zz_verif_replay_test.go")] = testFile
	ovb, _ := json.Marshal(map[string]interface{}{"Replace": repl})
	ovFile := filepath.Join(outDir, "overlay_"+sub+".json")
	os.WriteFile(ovFile, ovb, 0644)
	nb.bin = filepath.Join(outDir, "replay_"+sub+".test")
	args := []string{"test", "-c", "-vet=off", "-tags=verif", "-overlay", ovFile, "-o", nb.bin}
	if race {
		nb.bin = filepath.Join(outDir, "replay_"+sub+"_race.test")
		args = []string{"test", "-c", "-race", "-vet=off", "-tags=verif", "-overlay", ovFile, "-o", nb.bin}
	}
	cmd := exec.Command("go", append(args, "./"+relDir)...)
	cmd.Dir = repoDir
	cmd.Env = append(os.Environ(), "GOFLAGS=-mod=mod", "GOPROXY=off", "GOSUMDB=off", "GOTOOLCHAIN=local")
	out, err := cmd.CombinedOutput()
	nb.output = string(out)
	if err != nil {
		nb.err = fmt.Errorf("native build failed: %v\n%s", err, out)
	}
	return nb
}

type nativeResult struct {
	Output      string
	CheckFailed string // label
	Panicked    bool
	PanicMsg    string
	TimedOut    bool
	AssumeFalse bool
	Ended       bool
	Observes    []string
	ExitCode    int
	RaceReport  string
}

func runNative(nb *nativeBuild, repoDir string, doc *replayDoc, replayFile string, timeout time.Duration) *nativeResult {
	res := &nativeResult{}
	if nb.err != nil {
		res.Output = nb.err.Error()
		res.ExitCode = -1
		return res
	}
	pdir := repoDir
	if nb.dir != "." && nb.dir != "" {
		pdir = filepath.Join(repoDir, nb.dir)
	}
	work, _ := os.MkdirTemp(filepath.Dir(nb.bin), "run")
	defer os.RemoveAll(work)
	cmd := exec.Command(nb.bin, "-test.run", "^TestVerifReplay$", "-test.count=1", "-test.timeout", timeout.String())
	cmd.Dir = pdir
	cmd.Env = append(os.Environ(), "VERIF_REPLAY="+replayFile, "VERIF_HARNESS="+doc.Harness, "VERIF_WORK="+work, "HOME="+work)
	var buf bytes.Buffer
	cmd.Stdout = &buf
	cmd.Stderr = &buf
	done := make(chan error, 1)
	cmd.Start()
	go func() { done <- cmd.Wait() }()
	select {
	case err := <-done:
		if ee, ok := err.(*exec.ExitError); ok {
			res.ExitCode = ee.ExitCode()
		}
	case <-time.After(timeout + 10*time.Second):
		cmd.Process.Kill()
		res.TimedOut = true
		<-done
	}
	res.Output = buf.String()
	for _, line := range strings.Split(res.Output, "\n") {
		switch {
		case strings.HasPrefix(line, "VERIF-CHECK-FAILED "):
			res.CheckFailed = strings.TrimPrefix(line, "VERIF-CHECK-FAILED ")
		case strings.HasPrefix(line, "VERIF-ASSUME-FALSE"):
			res.AssumeFalse = true
		case strings.HasPrefix(line, "VERIF-END"):
			res.Ended = true
		case strings.HasPrefix(line, "VERIF-OBSERVE "):
			res.Observes = append(res.Observes, strings.TrimPrefix(line, "VERIF-OBSERVE "))
		case strings.HasPrefix(line, "panic: test timed out"):
			res.TimedOut = true
		case strings.HasPrefix(line, "fatal error: all goroutines are asleep"):
			res.TimedOut = true
		case strings.HasPrefix(line, "VERIF-DEADLOCK"):
			res.TimedOut = true
		case strings.HasPrefix(line, "WARNING: DATA RACE"):
			res.RaceReport = res.Output
		case strings.HasPrefix(line, "panic: ") || strings.HasPrefix(line, "fatal error: "):
			if !res.Panicked {
				res.Panicked = true
				res.PanicMsg = line
			}
		}
	}
	return res
}

func reproduced(v *Violation, nr *nativeResult) bool {
	switch v.Kind {
	case "check":
		// the same assertion fails natively; or the native run crashes outright (code that the
		// harness summarises under the engine, e.g. AnalyzeData, may trip over the same
		// corrupted state first): either way the misbehaviour is real
		return nr.CheckFailed == v.Label || (nr.Panicked && !nr.TimedOut && nr.CheckFailed == "")
	case "panic":
		return nr.Panicked && !nr.TimedOut
	case "deadlock":
		return nr.TimedOut
	case "race":
		// the Go race detector reports a race at one of the two source lines
		if nr.RaceReport == "" {
			return false
		}
		for _, part := range strings.Split(strings.TrimPrefix(v.Label, "data race between "), " and ") {
			if i := strings.LastIndex(part, "/"); i >= 0 {
				part = part[i+1:]
			}
			if part != "" && strings.Contains(nr.RaceReport, part) {
				return true
			}
		}
		return false
	}
	return false
}

// ---- the check command

func cmdCheck(args []string) {
	if len(args) < 1 {
		fmt.Fprintln(os.Stderr, "usage: gosym check <property> [quick|thorough] [--replay file] [--repo dir]")
		os.Exit(2)
	}
	prop := args[0]
	tier := "quick"
	replayFile := ""
	repoDir := "/repo"
	onlyHarness := ""
	for i := 1; i < len(args); i++ {
		switch args[i] {
		case "quick", "thorough":
			tier = args[i]
		case "--replay":
			i++
			replayFile = args[i]
		case "--repo":
			i++
			repoDir = args[i]
		case "--harness":
			i++
			onlyHarness = args[i]
		}
	}
	if t := os.Getenv("VERIF_TIER"); t == "quick" || t == "thorough" {
		if len(args) < 2 || (args[1] != "quick" && args[1] != "thorough") {
			tier = t
		}
	}
	seed := 0
	if s := os.Getenv("VERIF_SEED"); s != "" {
		seed, _ = strconv.Atoi(s)
	}
	var specs map[string]propSpec
	b, err := os.ReadFile(filepath.Join(verifDir, "harness", "checks.json"))
	if err != nil {
		fmt.Fprintln(os.Stderr, err)
		os.Exit(2)
	}
	if err := json.Unmarshal(b, &specs); err != nil {
		fmt.Fprintln(os.Stderr, "checks.json:", err)
		os.Exit(2)
	}
	spec, ok := specs[prop]
	if !ok {
		fmt.Fprintln(os.Stderr, "no such property in checks.json:", prop)
		os.Exit(2)
	}
	outBase := verifDir
	if sd := os.Getenv("VERIF_SCRATCH"); sd != "" {
		outBase = sd // evaluation runs against a mutated copy: keep replay files and evidence apart
	}
	outDir := filepath.Join(outBase, "out", prop)
	os.MkdirAll(outDir, 0755)

	if replayFile != "" {
		os.Exit(doReplay(repoDir, replayFile, outDir))
	}
	os.Exit(runCheck(prop, tier, seed, repoDir, spec, outDir, onlyHarness))
}

func doReplay(repoDir, replayFile, outDir string) int {
	b, err := os.ReadFile(replayFile)
	if err != nil {
		fmt.Fprintln(os.Stderr, err)
		return 2
	}
	var doc replayDoc
	if err := json.Unmarshal(b, &doc); err != nil {
		fmt.Fprintln(os.Stderr, err)
		return 2
	}
	nb := buildNative(repoDir, doc.Dir, filepath.Join(outDir, "native"), doc.Kind == "race")
	if nb.err != nil {
		fmt.Fprintln(os.Stderr, nb.err)
		return 2
	}
	nr := runNative(nb, repoDir, &doc, replayFile, 60*time.Second)
	fmt.Print(nr.Output)
	v := Violation{Kind: doc.Kind, Label: doc.Label}
	if reproduced(&v, nr) {
		fmt.Printf("REPRODUCED %s %s\n", doc.Kind, doc.Label)
		return 1
	}
	fmt.Println("NOT-REPRODUCED")
	return 0
}

type harnessEvidence struct {
	Harness      string         `json:"harness"`
	What         string         `json:"what"`
	Params       map[string]int `json:"params"`
	Paths        int            `json:"paths"`
	Ends         map[string]int `json:"path_ends"`
	Obligations  int            `json:"obligations"`
	Discharged   int            `json:"discharged"`
	Unknown      int            `json:"unknown"`
	Checks       map[string]int `json:"check_labels"`
	Witnesses    map[string]int `json:"witness_labels"`
	Decisions    int            `json:"decisions"`
	Steps        int            `json:"ssa_instructions"`
	SolverQ      int            `json:"solver_queries"`
	SolverTimeS  float64        `json:"solver_time_s"`
	SolverMaxS   float64        `json:"solver_max_query_s"`
	WallS        float64        `json:"wall_s"`
	Violations   int            `json:"violations_found"`
	Known        int            `json:"known_findings"`
	WitnessOK    int            `json:"witness_replays_matched"`
	WitnessTried int            `json:"witness_replays_tried"`
	Bounds       map[string]int `json:"bounds"`
	Solver       string         `json:"solver"`
}

func runCheck(prop, tier string, seed int, repoDir string, spec propSpec, outDir string, only string) int {
	start := time.Now()
	known := loadKnown()
	// clear old replay files
	old, _ := filepath.Glob(filepath.Join(outDir, "*.replay.json"))
	for _, f := range old {
		os.Remove(f)
	}
	exit := 0
	inconclusive := []string{}
	var hev []harnessEvidence
	funcs := map[string]bool{}
	ics := map[string]bool{}
	assumptions := map[string]bool{}
	var samples []interface{}
	totalViol := 0
	totalStates, totalTrans, totalValidated := 0, 0, 0
	totalObl, totalDis := 0, 0
	natives := map[string]*nativeBuild{}
	raceNow := false
	getNative := func(dir string) *nativeBuild {
		key := dir
		if raceNow {
			key += "|race"
		}
		if nb, ok := natives[key]; ok {
			return nb
		}
		nb := buildNative(repoDir, dir, filepath.Join(outDir, "native"), raceNow)
		natives[key] = nb
		return nb
	}
	knownPrinted := map[string]bool{}
	replayN := 0

	// group harnesses by config so that one load serves all of them
	var eng *Engine
	loadOnce := func() *Engine {
		if eng != nil {
			return eng
		}
		pats := map[string]bool{}
		for _, h := range spec.Harnesses {
			d := h.Dir
			if d == "" {
				d = "."
			}
			pats["./"+d] = true
		}
		var pl []string
		for p := range pats {
			pl = append(pl, p)
		}
		sort.Strings(pl)
		e, err := loadEngine(repoDir, pl, defaultConfig())
		if err != nil {
			fmt.Fprintln(os.Stderr, "load:", err)
			return nil
		}
		eng = e
		return e
	}

	for _, h := range spec.Harnesses {
		if only != "" && h.Name != only {
			continue
		}
		ts, ok := h.Tiers[tier]
		if !ok {
			if tier == "thorough" {
				ts, ok = h.Tiers["quick"]
			}
			if !ok {
				continue
			}
		}
		if ts.Skip {
			continue
		}
		e := loadOnce()
		if e == nil {
			inconclusive = append(inconclusive, "cannot load /repo with harness overlay (does the tree compile?)")
			break
		}
		cfg := defaultConfig()
		if ts.MaxPaths > 0 {
			cfg.MaxPaths = ts.MaxPaths
		}
		if ts.MaxSteps > 0 {
			cfg.MaxSteps = ts.MaxSteps
		}
		if ts.MaxLoop > 0 {
			cfg.MaxLoop = ts.MaxLoop
		}
		if ts.Solver != "" {
			cfg.Solver = ts.Solver
		}
		if ts.TimeoutMS > 0 {
			cfg.TimeoutMS = ts.TimeoutMS
		}
		cfg.SchedMode = ts.Sched
		if ts.Ctx != nil {
			cfg.CtxBound = *ts.Ctx // 0: no preemptions (free choices at blocking points only)
		}
		if ts.EnvFires > 0 {
			cfg.EnvFires = ts.EnvFires
		}
		cfg.RealFloats = ts.Real
		cfg.MapOrders = ts.MapOrders
		cfg.SelectChoice = ts.SelectChoice
		cfg.SelectLast = ts.SelectLast
		cfg.EnvLazy = ts.EnvLazy
		cfg.EnvBoundOK = ts.EnvBoundOK
		cfg.LazyFires = ts.LazyFires
		cfg.NPBound = ts.NPBound
		cfg.Race = ts.Race
		raceNow = ts.Race
		e.cfg = cfg
		e.params = ts.Params
		e.wantModels = !ts.NoModels // (a counterexample always gets its model; this is about witness replays)
		fn := e.findHarness(h.Name)
		if fn == nil {
			inconclusive = append(inconclusive, "harness not found: "+h.Name)
			continue
		}
		res := e.Explore(fn, h.Name)
		he := harnessEvidence{Harness: h.Name, What: h.What, Params: ts.Params, Paths: res.Paths, Ends: res.Ends, Obligations: res.Obligations,
			Discharged: res.Discharged, Unknown: res.ObligUnknown, Checks: res.Checks, Witnesses: res.Witnesses, Decisions: res.Decisions, Steps: res.Steps,
			SolverQ: res.Solver.Queries, SolverTimeS: res.Solver.TotalTime.Seconds(), SolverMaxS: res.Solver.MaxTime.Seconds(), WallS: res.Wall.Seconds(),
			Solver: cfg.Solver,
			Bounds: map[string]int{"max_steps_per_path": cfg.MaxSteps, "loop_unwind": cfg.MaxLoop, "ctx_switch_bound": cfg.CtxBound, "free_sched_choice_bound": cfg.NPBound, "env_fires": cfg.EnvFires, "sched_mode": cfg.SchedMode}}
		for _, f := range res.Functions {
			funcs[f] = true
		}
		for _, f := range res.Intercepts {
			ics[f] = true
		}
		for _, a := range res.Assumptions {
			assumptions[a] = true
		}
		// inconclusive ends
		for _, bad := range []string{"bound", "unsupported", "engine-error", "solver-unknown"} {
			if res.Ends[bad] > 0 {
				for d, n := range res.Details {
					if strings.HasPrefix(d, bad) {
						inconclusive = append(inconclusive, fmt.Sprintf("%s: %d path(s): %s", h.Name, n, firstLine(d)))
					}
				}
			}
		}
		if res.ObligUnknown > 0 || res.Solver.Errors > 0 {
			inconclusive = append(inconclusive, fmt.Sprintf("%s: %d assertion queries returned unknown, %d solver errors", h.Name, res.ObligUnknown, res.Solver.Errors))
		}
		if len(res.Witnesses) == 0 && len(res.Violations) == 0 {
			inconclusive = append(inconclusive, h.Name+": vacuous — no path reached a witness")
		}
		totalStates += res.Paths
		totalTrans += res.Decisions
		totalObl += res.Obligations
		totalDis += res.Discharged

		// violations: group, replay, classify
		type grp struct {
			vs []*Violation
		}
		groups := map[string]*grp{}
		var order []string
		for i := range res.Violations {
			v := &res.Violations[i]
			key := v.Kind + "|" + v.Label + "|" + v.Site + "|" + strings.Join(v.Tags, ",")
			if groups[key] == nil {
				groups[key] = &grp{}
				order = append(order, key)
			}
			groups[key].vs = append(groups[key].vs, v)
		}
		sort.Strings(order)
		for _, key := range order {
			g := groups[key]
			v0 := g.vs[0]
			var kf *knownFinding
			for i := range known {
				if known[i].matches(prop, h.Name, v0) {
					kf = &known[i]
					break
				}
			}
			// replay up to 3 models of the group
			rep := false
			var repFile string
			var lastOut string
			tried := 0
			if !h.NoReplay {
				nb := getNative(dirOr(h.Dir))
				for _, v := range g.vs {
					if tried >= 3 {
						break
					}
					if v.Inputs == nil {
						continue
					}
					tried++
					replayN++
					doc := &replayDoc{Property: prop, Harness: h.Name, Dir: dirOr(h.Dir), Kind: v.Kind, Label: v.Label, Site: v.Site, Msg: v.Msg, Inputs: v.Inputs, Params: ts.Params, Sched: v.Sched, Stack: v.Stack, Tags: v.Tags}
					fnm := filepath.Join(outDir, fmt.Sprintf("%s-%d.replay.json", h.Name, replayN))
					jb, _ := json.MarshalIndent(doc, "", " ")
					os.WriteFile(fnm, jb, 0644)
					// a violation that depends on the interleaving is replayed several times: the
					// native run is scheduled by the Go runtime, not by the engine's decision vector
					reps := 1
					if v.Kind == "deadlock" || v.Kind == "race" || ts.Sched == 1 {
						reps = 8
					}
					for a := 0; a < reps && !rep; a++ {
						nr := runNative(nb, repoDir, doc, fnm, 60*time.Second)
						lastOut = nr.Output
						if reproduced(v, nr) {
							rep = true
							repFile = fnm
						}
					}
					if rep {
						break
					}
					os.Remove(fnm)
				}
			}
			he.Violations += len(g.vs)
			if rep {
				if kf != nil {
					he.Known++
					line := fmt.Sprintf("KNOWN-FINDING: property=%s %s [%s %s @%s]", prop, kf.What, h.Name, v0.Label, v0.Site)
					if !knownPrinted[line] {
						knownPrinted[line] = true
						fmt.Println(line)
					}
					os.Remove(repFile)
				} else {
					totalViol++
					exit = 1
					fmt.Printf("VIOLATION property=%s replay=%s\n", prop, repFile)
					fmt.Printf("  harness=%s kind=%s label=%q site=%s msg=%q tags=%v\n", h.Name, v0.Kind, v0.Label, v0.Site, v0.Msg, v0.Tags)
				}
				if len(samples) < 12 {
					samples = append(samples, map[string]interface{}{"harness": h.Name, "counterexample": v0.Inputs, "label": v0.Label, "site": v0.Site, "reproduced_natively": true})
				}
			} else {
				if h.NoReplay && kf != nil {
					he.Known++
					line := fmt.Sprintf("KNOWN-FINDING: property=%s %s [%s %s @%s]", prop, kf.What, h.Name, v0.Label, v0.Site)
					if !knownPrinted[line] {
						knownPrinted[line] = true
						fmt.Println(line)
					}
				} else {
					msg := fmt.Sprintf("%s: counterexample for %q (%s @%s) did not reproduce natively (%d tried) — ENCODING-MISMATCH", h.Name, v0.Label, v0.Kind, v0.Site, tried)
					inconclusive = append(inconclusive, msg)
					of := filepath.Join(outDir, fmt.Sprintf("%s-mismatch-%d.txt", h.Name, replayN))
					jb, _ := json.MarshalIndent(v0, "", " ")
					os.WriteFile(of, []byte(string(jb)+"\n\n"+lastOut), 0644)
				}
			}
		}

		// witness replays: compare observations of the encoding with the native run
		nw := ts.Witnesses
		if nw == 0 {
			nw = 3
		}
		if !h.NoReplay && len(res.WitnessRuns) > 0 && nw > 0 {
			nb := getNative(dirOr(h.Dir))
			idxs := pickIndices(len(res.WitnessRuns), nw, seed)
			for _, i := range idxs {
				wr := res.WitnessRuns[i]
				he.WitnessTried++
				doc := &replayDoc{Property: prop, Harness: h.Name, Dir: dirOr(h.Dir), Kind: "witness", Inputs: wr.Inputs, Params: ts.Params}
				fnm := filepath.Join(outDir, fmt.Sprintf("%s-w%d.replay.json", h.Name, i))
				jb, _ := json.MarshalIndent(doc, "", " ")
				os.WriteFile(fnm, jb, 0644)
				nr := runNative(nb, repoDir, doc, fnm, 60*time.Second)
				okw := nr.Ended && nr.CheckFailed == "" && !nr.Panicked && !nr.AssumeFalse && sameObserves(wr.Observes, nr.Observes)
				if okw {
					he.WitnessOK++
					totalValidated++
					os.Remove(fnm)
					if len(samples) < 12 {
						samples = append(samples, map[string]interface{}{"harness": h.Name, "witness_inputs": wr.Inputs, "observed": wr.Observes, "native_agrees": true})
					}
				} else {
					inconclusive = append(inconclusive, fmt.Sprintf("%s: witness replay mismatch (encoding vs native): engine observes %v, native %v ended=%v checkfailed=%q panic=%v assumefalse=%v — see %s", h.Name, wr.Observes, nr.Observes, nr.Ended, nr.CheckFailed, nr.Panicked, nr.AssumeFalse, fnm))
					os.WriteFile(fnm+".out", []byte(nr.Output), 0644)
				}
			}
		}
		hev = append(hev, he)
	}
	for _, nb := range natives {
		if nb.bin != "" {
			os.Remove(nb.bin)
		}
	}
	if len(inconclusive) > 0 && exit == 0 {
		exit = 2
	}
	// evidence
	var fl, il []string
	al := []string{"go/packages+go/ssa (x/tools v0.29.0) define the program; gosym's SSA semantics (validated by native witness replays); SMT solver verdicts; environment intercepts listed under intercepts_used"}
	for f := range funcs {
		fl = append(fl, f)
	}
	sort.Strings(fl)
	for f := range ics {
		il = append(il, f)
	}
	sort.Strings(il)
	for a := range assumptions {
		al = append(al, a)
	}
	al = append(al, spec.Assumptions...)
	sort.Strings(al)
	if len(samples) == 0 {
		samples = append(samples, map[string]interface{}{"note": "no completed path produced a model"})
	}
	level := spec.Level
	if level == "" {
		level = "model_checking"
	}
	var repoFuncs []string
	for _, f := range fl {
		if strings.Contains(f, repoModule) && !strings.Contains(f, "zz_verif") {
			repoFuncs = append(repoFuncs, f)
		}
	}
	cov := map[string]interface{}{
		"states":                        totalStates,
		"transitions":                   totalTrans,
		"traces_validated_against_impl": totalValidated,
		"samples":                       samples,
		"evaluations":                   totalStates,
		"distinct_nontrivial":           totalStates,
		"rule":                          "each evaluation is one distinct symbolic path (unique decision vector) of a harness through the real SSA; a path stands for all inputs satisfying its path condition; obligations are assertion queries decided by the SMT solver over that whole set",
		"obligations":                   totalObl,
		"discharged":                    totalDis,
		"explanation":                   "bounded symbolic execution of go/ssa of /repo's current tree (gosym) with SMT-decided assertions; bounds per harness below; anything outside them is not claimed",
		"harnesses":                     hev,
		"functions_encoded":             repoFuncs,
		"functions_encoded_total":       len(fl),
		"intercepts_used":               il,
		"outside_claim":                 nonNil(spec.Outside),
		"inconclusive":                  nonNil(inconclusive),
		"exhaustive":                    false,
	}
	ev := map[string]interface{}{
		"property_id": prop,
		"tier":        tier,
		"seed":        seed,
		"level":       level,
		"coverage":    cov,
		"assumptions": al,
		"wall_s":      time.Since(start).Seconds(),
		"violations":  totalViol,
	}
	eb, _ := json.MarshalIndent(ev, "", " ")
	evBase := verifDir
	if sd := os.Getenv("VERIF_SCRATCH"); sd != "" {
		evBase = sd
	}
	os.MkdirAll(filepath.Join(evBase, "evidence"), 0755)
	os.WriteFile(filepath.Join(evBase, "evidence", prop+".json"), eb, 0644)
	for _, m := range inconclusive {
		fmt.Println("INCONCLUSIVE:", m)
	}
	fmt.Printf("%s %s: paths=%d obligations=%d discharged=%d witness-replays=%d violations=%d exit=%d wall=%.1fs\n", prop, tier, totalStates, totalObl, totalDis, totalValidated, totalViol, exit, time.Since(start).Seconds())
	return exit
}

func dirOr(d string) string {
	if d == "" {
		return "."
	}
	return d
}

func firstLine(s string) string {
	if i := strings.IndexByte(s, '\n'); i >= 0 {
		s = s[:i]
	}
	if len(s) > 300 {
		s = s[:300]
	}
	return s
}

func pickIndices(n, k, seed int) []int {
	if k >= n {
		out := make([]int, n)
		for i := range out {
			out[i] = i
		}
		return out
	}
	out := []int{}
	seen := map[int]bool{}
	x := uint64(seed)*6364136223846793005 + 1442695040888963407
	for len(out) < k {
		x = x*6364136223846793005 + 1442695040888963407
		i := int((x >> 33) % uint64(n))
		if !seen[i] {
			seen[i] = true
			out = append(out, i)
		}
	}
	return out
}

func sameObserves(a, b []string) bool {
	if len(a) != len(b) {
		return false
	}
	for i := range a {
		if a[i] != b[i] {
			return false
		}
	}
	return true
}

func nonNil(s []string) []string {
	if s == nil {
		return []string{}
	}
	return s
}
