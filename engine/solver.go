package main

import (
	"bufio"
	"fmt"
	"io"
	"os"
	"os/exec"
	"strconv"
	"strings"
	"time"
)

type SatResult int

const (
	Unsat SatResult = iota
	Sat
	Unknown
)

func (r SatResult) String() string { return [...]string{"unsat", "sat", "unknown"}[r] }

type solverStats struct {
	Queries   int
	Sat       int
	Unsat     int
	Unknown   int
	Errors    int
	TotalTime time.Duration
	MaxTime   time.Duration
}

type scope struct {
	defs  []int32
	decls []string
}

type Solver struct {
	kind      string // z3-new, z3, cvc5
	cmd       *exec.Cmd
	in        *bufio.Writer
	out       *bufio.Reader
	defined   map[int32]bool
	declared  map[string]Sort
	scopes    []scope
	stats     solverStats
	timeoutMS int
	log       io.Writer
	lastErr   string
	ctx       string // description of the current query (for slow-query logs)
}

func solverArgs(kind string, timeoutMS int) (string, []string) {
	switch kind {
	case "cvc5":
		return "cvc5", []string{"--incremental", "--lang=smt2", "--produce-models", "--solve-bv-as-int=sum", fmt.Sprintf("--tlimit-per=%d", timeoutMS)}
	case "cvc5-bv":
		return "cvc5", []string{"--incremental", "--lang=smt2", "--produce-models", fmt.Sprintf("--tlimit-per=%d", timeoutMS)}
	case "z3":
		return "z3", []string{"-in", fmt.Sprintf("-t:%d", timeoutMS)}
	}
	return "z3-new", []string{"-in", fmt.Sprintf("-t:%d", timeoutMS)}
}

func NewSolver(kind string, timeoutMS int) (*Solver, error) {
	bin, args := solverArgs(kind, timeoutMS)
	cmd := exec.Command(bin, args...)
	stdin, err := cmd.StdinPipe()
	if err != nil {
		return nil, err
	}
	stdout, err := cmd.StdoutPipe()
	if err != nil {
		return nil, err
	}
	cmd.Stderr = os.Stderr
	if err := cmd.Start(); err != nil {
		return nil, err
	}
	s := &Solver{kind: kind, cmd: cmd, in: bufio.NewWriterSize(stdin, 1<<16), out: bufio.NewReaderSize(stdout, 1<<16),
		defined: map[int32]bool{}, declared: map[string]Sort{}, timeoutMS: timeoutMS}
	if lf := os.Getenv("GOSYM_SMTLOG"); lf != "" {
		f, _ := os.OpenFile(fmt.Sprintf("%s.%d", lf, cmd.Process.Pid), os.O_CREATE|os.O_WRONLY|os.O_TRUNC, 0644)
		s.log = f
	}
	s.send("(set-option :print-success false)")
	s.send("(set-option :produce-models true)")
	if strings.HasPrefix(kind, "cvc5") {
		s.send("(set-logic ALL)")
	}
	s.scopes = []scope{{}}
	return s, nil
}

func (s *Solver) Close() {
	if s == nil || s.cmd == nil {
		return
	}
	s.in.WriteString("(exit)\n")
	s.in.Flush()
	done := make(chan struct{})
	go func() { s.cmd.Wait(); close(done) }()
	select {
	case <-done:
	case <-time.After(2 * time.Second):
		s.cmd.Process.Kill()
	}
}

func (s *Solver) send(line string) {
	if s.log != nil {
		fmt.Fprintln(s.log, line)
	}
	s.in.WriteString(line)
	s.in.WriteByte('\n')
}

func (s *Solver) Push() {
	s.send("(push 1)")
	s.scopes = append(s.scopes, scope{})
}

func (s *Solver) Pop() {
	top := s.scopes[len(s.scopes)-1]
	for _, id := range top.defs {
		delete(s.defined, id)
	}
	for _, n := range top.decls {
		delete(s.declared, n)
	}
	s.scopes = s.scopes[:len(s.scopes)-1]
	s.send("(pop 1)")
}

// Reset pops all scopes down to the base one.
func (s *Solver) ResetToBase() {
	for len(s.scopes) > 1 {
		s.Pop()
	}
}

func (s *Solver) define(t *Term) {
	if t == nil {
		return
	}
	switch t.op {
	case OpConst, OpRConst:
		return
	case OpVar:
		if _, ok := s.declared[t.name]; !ok {
			s.declared[t.name] = t.sort
			top := &s.scopes[len(s.scopes)-1]
			top.decls = append(top.decls, t.name)
			s.send(fmt.Sprintf("(declare-const %s %s)", smtName(t.name), t.sort.smt()))
		}
		return
	}
	if s.defined[t.id] {
		return
	}
	// iterative post-order to avoid deep recursion
	type item struct {
		t    *Term
		done bool
	}
	stack := []item{{t, false}}
	for len(stack) > 0 {
		it := stack[len(stack)-1]
		stack = stack[:len(stack)-1]
		x := it.t
		if x == nil || x.op == OpConst || x.op == OpRConst {
			continue
		}
		if x.op == OpVar {
			s.define(x)
			continue
		}
		if s.defined[x.id] {
			continue
		}
		if !it.done {
			stack = append(stack, item{x, true})
			stack = append(stack, item{x.c, false}, item{x.b, false}, item{x.a, false})
			continue
		}
		if x.op == OpUF && x.name != "is_int" {
			key := "uf:" + x.name
			if _, ok := s.declared[key]; !ok {
				s.declared[key] = x.sort
				top := &s.scopes[len(s.scopes)-1]
				top.decls = append(top.decls, key)
				args := x.a.sort.smt()
				if x.b != nil {
					args += " " + x.b.sort.smt()
				}
				s.send(fmt.Sprintf("(declare-fun %s (%s) %s)", smtName(x.name), args, x.sort.smt()))
			}
		}
		s.defined[x.id] = true
		top := &s.scopes[len(s.scopes)-1]
		top.defs = append(top.defs, x.id)
		s.send(fmt.Sprintf("(define-fun t%d () %s %s)", x.id, x.sort.smt(), x.body()))
	}
}

func (s *Solver) Assert(t *Term) {
	s.define(t)
	s.send("(assert " + t.ref() + ")")
}

func (s *Solver) readLine() (string, error) {
	line, err := s.out.ReadString('\n')
	return strings.TrimSpace(line), err
}

func (s *Solver) check(cmdline string) SatResult {
	_ = s.ctx
	start := time.Now()
	s.send(cmdline)
	s.in.Flush()
	res := Unknown
	for {
		line, err := s.readLine()
		if err != nil {
			s.lastErr = "solver died: " + err.Error()
			s.stats.Errors++
			break
		}
		if line == "" {
			continue
		}
		if line == "sat" {
			res = Sat
			break
		}
		if line == "unsat" {
			res = Unsat
			break
		}
		if line == "unknown" || strings.HasPrefix(line, "timeout") {
			res = Unknown
			break
		}
		if strings.Contains(line, "error") {
			s.lastErr = line
			s.stats.Errors++
			fmt.Fprintln(os.Stderr, "SOLVER ERROR:", line)
			// the answer line (if any) still follows for z3; treat as unknown
			// and resynchronise by echo.
			s.send("(echo \"sync\")")
			s.in.Flush()
			for {
				l2, err := s.readLine()
				if err != nil || strings.Contains(l2, "sync") {
					break
				}
			}
			res = Unknown
			break
		}
	}
	d := time.Since(start)
	if d > 3*time.Second && os.Getenv("VERIF_SLOWQ") != "" {
		fmt.Fprintf(os.Stderr, "SLOW QUERY %.1fs -> %v  ctx=%s\n", d.Seconds(), res, s.ctx)
	}
	s.stats.Queries++
	s.stats.TotalTime += d
	if d > s.stats.MaxTime {
		s.stats.MaxTime = d
	}
	switch res {
	case Sat:
		s.stats.Sat++
	case Unsat:
		s.stats.Unsat++
	default:
		s.stats.Unknown++
	}
	return res
}

func (s *Solver) Check() SatResult { return s.check("(check-sat)") }

// SetTimeout changes the per-query time limit (z3 back ends; cvc5 keeps its start-up limit).
func (s *Solver) SetTimeout(ms int) {
	if strings.HasPrefix(s.kind, "z3") {
		s.send(fmt.Sprintf("(set-option :timeout %d)", ms))
	}
}

// CheckWith checks satisfiability of current assertions plus extra (not retained).
func (s *Solver) CheckWith(extra *Term) SatResult {
	if extra.IsConst() {
		if extra.val == 0 {
			return Unsat
		}
		return s.Check()
	}
	s.define(extra)
	if extra.op == OpVar || !extra.isLeaf() {
		return s.check("(check-sat-assuming (" + extra.ref() + "))")
	}
	return s.Check()
}

// Model fetches values of all declared BV/Bool vars in scope.
func (s *Solver) Model() (Model, error) {
	m := Model{}
	var names []string
	for n, so := range s.declared {
		if strings.HasPrefix(n, "uf:") || (so == SReal && !strings.HasSuffix(n, "$u") && !strings.HasSuffix(n, "$s")) {
			continue
		}
		names = append(names, n)
	}
	if len(names) == 0 {
		return m, nil
	}
	var sb strings.Builder
	sb.WriteString("(get-value (")
	for _, n := range names {
		sb.WriteString(smtName(n))
		sb.WriteString(" ")
	}
	sb.WriteString("))")
	s.send(sb.String())
	s.in.Flush()
	// read balanced s-expression
	var text strings.Builder
	depth := 0
	started := false
	for {
		line, err := s.out.ReadString('\n')
		if err != nil {
			return nil, err
		}
		if strings.Contains(line, "(error") {
			return nil, fmt.Errorf("solver: %s", line)
		}
		inBar := false
		for _, ch := range line {
			switch {
			case ch == '|':
				inBar = !inBar
			case inBar:
			case ch == '(':
				depth++
				started = true
			case ch == ')':
				depth--
			}
		}
		text.WriteString(line)
		if started && depth <= 0 {
			break
		}
	}
	parseModel(text.String(), m)
	return m, nil
}

func parseModel(txt string, m Model) {
	// tokens: ( ) |name| or atoms
	i := 0
	n := len(txt)
	var toks []string
	for i < n {
		ch := txt[i]
		switch {
		case ch == '(' || ch == ')':
			toks = append(toks, string(ch))
			i++
		case ch == '|':
			j := strings.IndexByte(txt[i+1:], '|')
			toks = append(toks, txt[i:i+j+2])
			i += j + 2
		case ch == ' ' || ch == '\n' || ch == '\t' || ch == '\r':
			i++
		default:
			j := i
			for j < n && !strings.ContainsRune("() \n\t\r", rune(txt[j])) {
				j++
			}
			toks = append(toks, txt[i:j])
			i = j
		}
	}
	// pattern: ( name value )
	for k := 0; k+3 < len(toks); k++ {
		if toks[k] == "(" && toks[k+3] == ")" && toks[k+1] != "(" && toks[k+2] != "(" {
			name := strings.Trim(toks[k+1], "|")
			val := toks[k+2]
			switch {
			case val == "true":
				m[name] = 1
			case val == "false":
				m[name] = 0
			case strings.HasPrefix(val, "#x"):
				v, _ := strconv.ParseUint(val[2:], 16, 64)
				m[name] = v
			case strings.HasPrefix(val, "#b"):
				v, _ := strconv.ParseUint(val[2:], 2, 64)
				m[name] = v
			case strings.HasSuffix(name, "$u") || strings.HasSuffix(name, "$s"):
				// integer-valued real companion of a real-backed sample: also the sample's value
				if f, err := strconv.ParseFloat(val, 64); err == nil && f == float64(int64(f)) {
					m[name[:len(name)-2]] = uint64(int64(f)) & 0xffff
				}
			}
		} else if toks[k] == "(" && k+6 < len(toks) && toks[k+2] == "(" && toks[k+3] == "-" && toks[k+5] == ")" && (strings.HasSuffix(strings.Trim(toks[k+1], "|"), "$s")) {
			// ( name (- 5.0) )
			name := strings.Trim(toks[k+1], "|")
			if f, err := strconv.ParseFloat(toks[k+4], 64); err == nil && f == float64(int64(f)) {
				m[name[:len(name)-2]] = uint64(-int64(f)) & 0xffff
			}
		} else if toks[k] == "(" && k+7 < len(toks) && toks[k+2] == "(" && toks[k+3] == "_" && strings.HasPrefix(toks[k+4], "bv") {
			// ( name (_ bvN w) )
			name := strings.Trim(toks[k+1], "|")
			v, _ := strconv.ParseUint(toks[k+4][2:], 10, 64)
			m[name] = v
		}
	}
}
