package main

// Environment models: sync, sync/atomic, time, os (file-system model).

import (
	"fmt"
	"go/types"
	"path/filepath"
	"strings"

	"golang.org/x/tools/go/ssa"
)

// ---------- sync

type mutexState struct {
	locked  bool
	readers int
}

func (r *Run) mutex(p *Value) *mutexState {
	if r.mutexes == nil {
		r.mutexes = map[*Value]*mutexState{}
	}
	m := r.mutexes[p]
	if m == nil {
		m = &mutexState{}
		r.mutexes[p] = m
	}
	return m
}

func init() {
	reg(func(r *Run, fr *frame, args []Value) Value {
		m := r.mutex(args[0].(*Value))
		r.yield(fr, "lock")
		r.block(fr, "Mutex.Lock", func() bool { return !m.locked && m.readers == 0 })
		m.locked = true
		r.acquire(fr, m)
		return nil
	}, "(*sync.Mutex).Lock", "(*sync.RWMutex).Lock")
	reg(func(r *Run, fr *frame, args []Value) Value {
		m := r.mutex(args[0].(*Value))
		if !m.locked {
			panic(targetPanic{v: Iface{T: types.Typ[types.String], V: "sync: unlock of unlocked mutex"}, msg: "fatal error: sync: unlock of unlocked mutex", kind: "mutex", site: fr.repoSite(), fn: fr.fn.String()})
		}
		m.locked = false
		r.release(fr, m)
		r.yield(fr, "unlock")
		return nil
	}, "(*sync.Mutex).Unlock", "(*sync.RWMutex).Unlock")
	reg(func(r *Run, fr *frame, args []Value) Value {
		m := r.mutex(args[0].(*Value))
		if m.locked || m.readers > 0 {
			return r.tt.fls
		}
		m.locked = true
		return r.tt.tru
	}, "(*sync.Mutex).TryLock")
	reg(func(r *Run, fr *frame, args []Value) Value {
		m := r.mutex(args[0].(*Value))
		r.yield(fr, "rlock")
		r.block(fr, "RWMutex.RLock", func() bool { return !m.locked })
		m.readers++
		r.acquire(fr, m)
		return nil
	}, "(*sync.RWMutex).RLock")
	reg(func(r *Run, fr *frame, args []Value) Value {
		m := r.mutex(args[0].(*Value))
		m.readers--
		r.release(fr, m)
		return nil
	}, "(*sync.RWMutex).RUnlock")

	// WaitGroup
	reg(func(r *Run, fr *frame, args []Value) Value {
		p := args[0].(*Value)
		d := r.concretizeInt(fr, args[1].(*Term), true)
		if r.wgs == nil {
			r.wgs = map[*Value]int64{}
		}
		r.wgs[p] += d
		if r.wgs[p] < 0 {
			panic(targetPanic{v: Iface{T: types.Typ[types.String], V: "sync: negative WaitGroup counter"}, msg: "sync: negative WaitGroup counter", kind: "waitgroup", site: fr.repoSite(), fn: fr.fn.String()})
		}
		return nil
	}, "(*sync.WaitGroup).Add")
	reg(func(r *Run, fr *frame, args []Value) Value {
		p := args[0].(*Value)
		if r.wgs == nil {
			r.wgs = map[*Value]int64{}
		}
		r.wgs[p]--
		if r.wgs[p] < 0 {
			panic(targetPanic{v: Iface{T: types.Typ[types.String], V: "sync: negative WaitGroup counter"}, msg: "sync: negative WaitGroup counter", kind: "waitgroup", site: fr.repoSite(), fn: fr.fn.String()})
		}
		r.release(fr, p)
		r.yield(fr, "wg.Done")
		return nil
	}, "(*sync.WaitGroup).Done")
	reg(func(r *Run, fr *frame, args []Value) Value {
		p := args[0].(*Value)
		r.yield(fr, "wg.Wait")
		r.block(fr, "WaitGroup.Wait", func() bool { return r.wgs[p] == 0 })
		r.acquire(fr, p)
		return nil
	}, "(*sync.WaitGroup).Wait")
	reg(func(r *Run, fr *frame, args []Value) Value {
		p := args[0].(*Value)
		if r.onces == nil {
			r.onces = map[*Value]bool{}
		}
		if r.onces[p] {
			r.acquire(fr, p)
			return nil
		}
		r.onces[p] = true
		r.call(fr, 0, args[1], nil)
		r.release(fr, p)
		return nil
	}, "(*sync.Once).Do")

	// sync.Pool: a per-pool LIFO of the values put back; Get pops one or calls New. (The runtime's
	// per-P caches and GC-driven eviction are not modelled: a pooled value is always reused, which is
	// the behaviour under which aliasing through a pool shows.)
	reg(func(r *Run, fr *frame, args []Value) Value {
		p := args[0].(*Value)
		if q := r.pools[p]; len(q) > 0 {
			v := q[len(q)-1]
			r.pools[p] = q[:len(q)-1]
			return v
		}
		st, ok := (*p).(Struct)
		if !ok || len(st) < 6 {
			fr.unsupported("sync.Pool cell %T", *p)
		}
		switch nf := st[5].(type) {
		case *Closure:
			if nf != nil {
				return r.call(fr, 0, nf, nil)
			}
		case *ssa.Function:
			if nf != nil {
				return r.call(fr, 0, nf, nil)
			}
		}
		return r.zero(fr.fn.Signature.Results().At(0).Type())
	}, "(*sync.Pool).Get")
	reg(func(r *Run, fr *frame, args []Value) Value {
		p := args[0].(*Value)
		if r.pools == nil {
			r.pools = map[*Value][]Value{}
		}
		r.pools[p] = append(r.pools[p], args[1])
		return nil
	}, "(*sync.Pool).Put")

	// sync/atomic primitives operate directly on the cell
	ld := func(r *Run, fr *frame, args []Value) Value {
		return r.load(fr, deref(fr.fn.Signature.Params().At(0).Type()), args[0])
	}
	reg(ld, "sync/atomic.LoadInt32", "sync/atomic.LoadInt64", "sync/atomic.LoadUint32", "sync/atomic.LoadUint64", "sync/atomic.LoadUintptr", "sync/atomic.LoadPointer")
	st := func(r *Run, fr *frame, args []Value) Value {
		r.store(fr, deref(fr.fn.Signature.Params().At(0).Type()), args[0], args[1])
		return nil
	}
	reg(st, "sync/atomic.StoreInt32", "sync/atomic.StoreInt64", "sync/atomic.StoreUint32", "sync/atomic.StoreUint64", "sync/atomic.StoreUintptr", "sync/atomic.StorePointer")
	add := func(r *Run, fr *frame, args []Value) Value {
		T := deref(fr.fn.Signature.Params().At(0).Type())
		old := r.load(fr, T, args[0]).(*Term)
		nv := r.tt.Bin(OpAdd, old, args[1].(*Term))
		r.store(fr, T, args[0], nv)
		return nv
	}
	reg(add, "sync/atomic.AddInt32", "sync/atomic.AddInt64", "sync/atomic.AddUint32", "sync/atomic.AddUint64", "sync/atomic.AddUintptr")
	swap := func(r *Run, fr *frame, args []Value) Value {
		T := deref(fr.fn.Signature.Params().At(0).Type())
		old := r.load(fr, T, args[0])
		r.store(fr, T, args[0], args[1])
		return old
	}
	reg(swap, "sync/atomic.SwapInt32", "sync/atomic.SwapInt64", "sync/atomic.SwapUint32", "sync/atomic.SwapUint64", "sync/atomic.SwapPointer")
	cas := func(r *Run, fr *frame, args []Value) Value {
		T := deref(fr.fn.Signature.Params().At(0).Type())
		old := r.load(fr, T, args[0])
		if r.branch(fr, r.valEq(fr, old, args[1])) {
			r.store(fr, T, args[0], args[2])
			return r.tt.tru
		}
		return r.tt.fls
	}
	reg(cas, "sync/atomic.CompareAndSwapInt32", "sync/atomic.CompareAndSwapInt64", "sync/atomic.CompareAndSwapUint32", "sync/atomic.CompareAndSwapUint64", "sync/atomic.CompareAndSwapPointer")
}

// ---------- time (abstract: Time = {wall:0, ext: ns since Unix epoch, loc:nil})

func (r *Run) mkTime(ns *Term) Value {
	return Struct{r.tt.Const(64, 0), ns, (*Value)(nil)}
}

func timeNS(v Value) *Term {
	return v.(Struct)[1].(*Term)
}

func (r *Run) now(fr *frame) *Term {
	r.nowCount++
	if r.clockConcrete {
		t := r.tt.Const(64, uint64(1700000000000000000+int64(r.nowCount)*1000))
		r.lastNow = t
		return t
	}
	t := r.freshBV("now", 64)
	tt := r.tt
	lo := tt.Const(64, 0)
	if r.lastNow != nil {
		lo = r.lastNow
	}
	// non-decreasing clock, |t| < 2^62
	r.assume(fr, tt.And(tt.Cmp(OpSLe, lo, t), tt.Cmp(OpSLt, t, tt.Const(64, 1<<62))))
	r.lastNow = t
	return t
}

func init() {
	reg(func(r *Run, fr *frame, args []Value) Value { return r.mkTime(r.now(fr)) }, "time.Now")
	reg(func(r *Run, fr *frame, args []Value) Value {
		return r.tt.Bin(OpSub, r.now(fr), timeNS(args[0]))
	}, "time.Since")
	reg(func(r *Run, fr *frame, args []Value) Value {
		return r.tt.Bin(OpSub, timeNS(args[0]), r.now(fr))
	}, "time.Until")
	reg(func(r *Run, fr *frame, args []Value) Value {
		return r.mkTime(r.tt.Bin(OpAdd, timeNS(args[0]), args[1].(*Term)))
	}, "(time.Time).Add")
	reg(func(r *Run, fr *frame, args []Value) Value {
		return r.tt.Bin(OpSub, timeNS(args[0]), timeNS(args[1]))
	}, "(time.Time).Sub")
	reg(func(r *Run, fr *frame, args []Value) Value {
		return r.tt.Cmp(OpSLt, timeNS(args[0]), timeNS(args[1]))
	}, "(time.Time).Before")
	reg(func(r *Run, fr *frame, args []Value) Value {
		return r.tt.Cmp(OpSLt, timeNS(args[1]), timeNS(args[0]))
	}, "(time.Time).After")
	reg(func(r *Run, fr *frame, args []Value) Value {
		return r.tt.Eq(timeNS(args[0]), timeNS(args[1]))
	}, "(time.Time).Equal")
	reg(func(r *Run, fr *frame, args []Value) Value { return timeNS(args[0]) }, "(time.Time).UnixNano")
	reg(func(r *Run, fr *frame, args []Value) Value {
		return r.tt.Bin(OpSDiv, timeNS(args[0]), r.tt.Const(64, 1000))
	}, "(time.Time).UnixMicro")
	reg(func(r *Run, fr *frame, args []Value) Value {
		return r.tt.Bin(OpSDiv, timeNS(args[0]), r.tt.Const(64, 1000000))
	}, "(time.Time).UnixMilli")
	reg(func(r *Run, fr *frame, args []Value) Value {
		return r.tt.Bin(OpSDiv, timeNS(args[0]), r.tt.Const(64, 1000000000))
	}, "(time.Time).Unix")
	reg(func(r *Run, fr *frame, args []Value) Value {
		return r.tt.Bin(OpSRem, timeNS(args[0]), r.tt.Const(64, 1000000000))
	}, "(time.Time).Nanosecond")
	reg(func(r *Run, fr *frame, args []Value) Value {
		return r.tt.Eq(timeNS(args[0]), r.tt.Const(64, 0))
	}, "(time.Time).IsZero")
	reg(func(r *Run, fr *frame, args []Value) Value { return "<time>" }, "(time.Time).Format", "(time.Time).String")
	reg(func(r *Run, fr *frame, args []Value) Value { return args[0] }, "(time.Time).UTC", "(time.Time).Local", "(time.Time).Round", "(time.Time).Truncate", "(time.Time).In")
	reg(func(r *Run, fr *frame, args []Value) Value {
		sec, ns := args[0].(*Term), args[1].(*Term)
		return r.mkTime(r.tt.Bin(OpAdd, r.tt.Bin(OpMul, sec, r.tt.Const(64, 1000000000)), ns))
	}, "time.Unix")
	reg(func(r *Run, fr *frame, args []Value) Value { r.yield(fr, "sleep"); return nil }, "time.Sleep")

	// tickers and timers: environment channels
	newEnvChan := func(r *Run, name string) *Chan {
		c := r.newChan(1, nil)
		c.env = true
		c.envName = " (" + name + ")"
		return c
	}
	timeT := func(r *Run) types.Type {
		return r.eng.prog.ImportedPackage("time").Type("Time").Type()
	}
	reg(func(r *Run, fr *frame, args []Value) Value {
		c := newEnvChan(r, "ticker")
		c.elem = timeT(r)
		tk := r.zero(deref(fr.fn.Signature.Results().At(0).Type())).(Struct)
		tk[0] = c
		var cell Value = tk
		r.envChans = append(r.envChans, c)
		if fr.fn.Name() == "NewTimer" {
			c.oneShot = true
		}
		if r.timersQuiet && fr.fn.Name() == "NewTimer" {
			c.envStopped, c.envQuiet = true, true
		}
		return &cell
	}, "time.NewTicker", "time.NewTimer")
	reg(func(r *Run, fr *frame, args []Value) Value {
		c := newEnvChan(r, "after")
		c.elem = timeT(r)
		c.oneShot = fr.fn.Name() == "After"
		if r.timersQuiet {
			c.envStopped, c.envQuiet = true, true
		}
		return c
	}, "time.After", "time.Tick")
	reg(func(r *Run, fr *frame, args []Value) Value {
		p := args[0].(*Value)
		if c, ok := (*p).(Struct)[0].(*Chan); ok && c != nil {
			c.envStopped = true
		}
		if fr.fn.Signature.Results().Len() > 0 {
			return r.tt.tru
		}
		return nil
	}, "(*time.Ticker).Stop", "(*time.Timer).Stop")
	reg(func(r *Run, fr *frame, args []Value) Value {
		p := args[0].(*Value)
		if c, ok := (*p).(Struct)[0].(*Chan); ok && c != nil {
			c.envStopped = c.envQuiet
			c.buf = nil
		}
		if fr.fn.Signature.Results().Len() > 0 {
			return r.tt.tru
		}
		return nil
	}, "(*time.Ticker).Reset", "(*time.Timer).Reset")
}

// ---------- os: file-system model

type fsHandle struct {
	name   string
	f      *fsFile
	closed bool
}

func (r *Run) fs() *fsModel {
	if r.fsys == nil {
		r.fsys = &fsModel{files: map[string]*fsFile{}}
	}
	return r.fsys
}

func (m *fsModel) get(name string) *fsFile {
	name = filepath.Clean(name)
	f := m.files[name]
	if f == nil {
		f = &fsFile{}
		m.files[name] = f
		m.order = append(m.order, name)
	}
	return f
}

func (r *Run) fsOp(op string) {
	m := r.fs()
	m.ops = append(m.ops, op)
}

// fault: may this I/O operation fail? (only when the harness enabled faults)
func (r *Run) ioFault(fr *frame, what string) bool {
	if r.faultBudget <= 0 {
		return false
	}
	if r.choose(fr, 2, "iofault:"+what) == 1 {
		r.faultBudget--
		r.tags = append(r.tags, "iofault:"+what)
		return true
	}
	return false
}

func (r *Run) errResult(fr *frame, msg string) Value {
	return r.newError(fr, msg)
}

func (r *Run) notExistErr(fr *frame, name string) Value {
	e := r.newError(fr, "open "+name+": no such file or directory")
	if r.notExist == nil {
		r.notExist = map[*Value]bool{}
	}
	r.notExist[e.(Iface).V.(*Value)] = true
	return e
}

func (r *Run) newFileValue(h *fsHandle) Value {
	var cell Value = h
	return &cell
}

func handleOf(fr *frame, v Value) *fsHandle {
	p, ok := v.(*Value)
	if !ok || p == nil {
		// methods of a nil *os.File return os.ErrInvalid; model: a closed handle on no file
		return &fsHandle{name: "<nil file>", f: &fsFile{}, closed: true}
	}
	h, ok := (*p).(*fsHandle)
	if !ok {
		fr.unsupported("os.File method on foreign file object %T", *p)
	}
	return h
}

func init() {
	reg(func(r *Run, fr *frame, args []Value) Value { return "" }, "os.Getenv")
	reg(func(r *Run, fr *frame, args []Value) Value { return Tuple{"", r.tt.fls} }, "os.LookupEnv")
	reg(func(r *Run, fr *frame, args []Value) Value { return Tuple{"/home/verif", Iface{}} }, "os.UserHomeDir")
	reg(func(r *Run, fr *frame, args []Value) Value { return Tuple{"verifhost", Iface{}} }, "os.Hostname")
	reg(func(r *Run, fr *frame, args []Value) Value { return r.tt.Const(64, 4242) }, "os.Getpid")

	reg(func(r *Run, fr *frame, args []Value) Value {
		name := args[0].(string)
		r.fsOp("create " + name)
		if r.ioFault(fr, "create") {
			return Tuple{(*Value)(nil), r.errResult(fr, "create "+name+": injected I/O error")}
		}
		f := r.fs().get(name)
		dir := r.fs().files[filepath.Dir(filepath.Clean(name))]
		if r.fs().strictDirs && (dir == nil || !dir.exists || !dir.isDir) {
			return Tuple{(*Value)(nil), r.notExistErr(fr, name)}
		}
		f.exists = true
		f.isDir = false
		f.content = nil
		f.created++
		f.open++
		return Tuple{r.newFileValue(&fsHandle{name: name, f: f}), Iface{}}
	}, "os.Create")
	reg(func(r *Run, fr *frame, args []Value) Value {
		dir, pat := args[0].(string), args[1].(string)
		if dir == "" {
			dir = "/tmp"
		}
		r.tmpSerial++
		name := filepath.Join(dir, strings.Replace(pat, "*", fmt.Sprintf("%06d", r.tmpSerial), 1))
		r.fsOp("createtemp " + name)
		if r.ioFault(fr, "create") {
			return Tuple{(*Value)(nil), r.errResult(fr, "createtemp "+name+": injected I/O error")}
		}
		f := r.fs().get(name)
		f.exists, f.isDir, f.content = true, false, nil
		f.created++
		f.open++
		return Tuple{r.newFileValue(&fsHandle{name: name, f: f}), Iface{}}
	}, "os.CreateTemp")
	reg(func(r *Run, fr *frame, args []Value) Value {
		name := args[0].(string)
		f := r.fs().files[filepath.Clean(name)]
		if f == nil || !f.exists {
			return Tuple{Slice(nil), r.notExistErr(fr, name)}
		}
		out := make(Slice, len(f.content))
		copy(out, f.content)
		return Tuple{out, Iface{}}
	}, "os.ReadFile")
	reg(func(r *Run, fr *frame, args []Value) Value {
		name := args[0].(string)
		r.fsOp("open " + name)
		f := r.fs().files[filepath.Clean(name)]
		if f == nil || !f.exists {
			return Tuple{(*Value)(nil), r.notExistErr(fr, name)}
		}
		f.open++
		return Tuple{r.newFileValue(&fsHandle{name: name, f: f}), Iface{}}
	}, "os.Open")
	reg(func(r *Run, fr *frame, args []Value) Value {
		name := args[0].(string)
		f := r.fs().files[filepath.Clean(name)]
		if f == nil || !f.exists {
			return Tuple{Iface{}, r.notExistErr(fr, name)}
		}
		// FileInfo: opaque non-nil interface
		return Tuple{Iface{T: types.Typ[types.String], V: "fileinfo:" + name}, Iface{}}
	}, "os.Stat", "os.Lstat")
	reg(func(r *Run, fr *frame, args []Value) Value {
		e, ok := args[0].(Iface)
		if !ok || e.T == nil {
			return r.tt.fls
		}
		p, ok := e.V.(*Value)
		return r.tt.Bool(ok && r.notExist[p])
	}, "os.IsNotExist")
	reg(func(r *Run, fr *frame, args []Value) Value {
		name := args[0].(string)
		r.fsOp("mkdirall " + name)
		if r.ioFault(fr, "mkdir") {
			return r.errResult(fr, "mkdir "+name+": injected I/O error")
		}
		p := filepath.Clean(name)
		for p != "/" && p != "." && p != "" {
			f := r.fs().get(p)
			f.exists = true
			f.isDir = true
			p = filepath.Dir(p)
		}
		return Iface{}
	}, "os.MkdirAll", "os.Mkdir")
	reg(func(r *Run, fr *frame, args []Value) Value {
		name := args[0].(string)
		r.fsOp("remove " + name)
		f := r.fs().files[filepath.Clean(name)]
		if f == nil || !f.exists {
			return r.notExistErr(fr, name)
		}
		f.exists = false
		return Iface{}
	}, "os.Remove")
	reg(func(r *Run, fr *frame, args []Value) Value {
		from, to := args[0].(string), args[1].(string)
		r.fsOp("rename " + from + " " + to)
		f := r.fs().files[filepath.Clean(from)]
		if f == nil || !f.exists {
			return r.notExistErr(fr, from)
		}
		t := r.fs().get(to)
		*t = *f
		f.exists = false
		f.content = nil
		return Iface{}
	}, "os.Rename")

	reg(func(r *Run, fr *frame, args []Value) Value {
		from, to := args[0].(string), args[1].(string)
		r.fsOp("link " + from + " " + to)
		f := r.fs().files[filepath.Clean(from)]
		if f == nil || !f.exists {
			return r.notExistErr(fr, from)
		}
		if t := r.fs().files[filepath.Clean(to)]; t != nil && t.exists {
			return r.errResult(fr, "link "+from+" "+to+": file exists")
		}
		t := r.fs().get(to)
		*t = *f
		return Iface{}
	}, "os.Link")
	reg(func(r *Run, fr *frame, args []Value) Value {
		h := handleOf(fr, args[0])
		b := args[1].(Slice)
		if h.closed {
			return Tuple{r.tt.Const(64, 0), r.errResult(fr, "write "+h.name+": file already closed")}
		}
		if r.ioFault(fr, "write") {
			return Tuple{r.tt.Const(64, 0), r.errResult(fr, "write "+h.name+": injected I/O error")}
		}
		for _, x := range b {
			h.f.content = append(h.f.content, x)
		}
		h.f.writes++
		return Tuple{r.tt.Const(64, uint64(len(b))), Iface{}}
	}, "(*os.File).Write")
	reg(func(r *Run, fr *frame, args []Value) Value {
		h := handleOf(fr, args[0])
		s := args[1].(string)
		if h.closed {
			return Tuple{r.tt.Const(64, 0), r.errResult(fr, "write "+h.name+": file already closed")}
		}
		if r.ioFault(fr, "write") {
			return Tuple{r.tt.Const(64, 0), r.errResult(fr, "write "+h.name+": injected I/O error")}
		}
		for i := 0; i < len(s); i++ {
			h.f.content = append(h.f.content, r.tt.Const(8, uint64(s[i])))
		}
		h.f.writes++
		return Tuple{r.tt.Const(64, uint64(len(s))), Iface{}}
	}, "(*os.File).WriteString")
	reg(func(r *Run, fr *frame, args []Value) Value {
		h := handleOf(fr, args[0])
		if h.closed {
			return r.errResult(fr, "close "+h.name+": file already closed")
		}
		h.closed = true
		h.f.closed++
		return Iface{}
	}, "(*os.File).Close")
	reg(func(r *Run, fr *frame, args []Value) Value { return Iface{} }, "(*os.File).Sync")
	reg(func(r *Run, fr *frame, args []Value) Value { return handleOf(fr, args[0]).name }, "(*os.File).Name")

	// harness access to the FS model
	harnessAPI["vFsSize"] = func(r *Run, fr *frame, args []Value) Value {
		f := r.fs().files[filepath.Clean(argStr(fr, args[0]))]
		if f == nil || !f.exists {
			return r.tt.Const(64, ^uint64(0))
		}
		return r.tt.Const(64, uint64(len(f.content)))
	}
	harnessAPI["vFsBytes"] = func(r *Run, fr *frame, args []Value) Value {
		f := r.fs().files[filepath.Clean(argStr(fr, args[0]))]
		if f == nil || !f.exists {
			return Slice(nil)
		}
		out := make(Slice, len(f.content))
		copy(out, f.content)
		return out
	}
	harnessAPI["vFsExists"] = func(r *Run, fr *frame, args []Value) Value {
		f := r.fs().files[filepath.Clean(argStr(fr, args[0]))]
		return r.tt.Bool(f != nil && f.exists)
	}
	harnessAPI["vFsOpenCount"] = func(r *Run, fr *frame, args []Value) Value {
		// number of files currently open (created/opened and not closed)
		n := 0
		for _, f := range r.fs().files {
			n += f.open - f.closed
		}
		return r.tt.Const(64, uint64(n))
	}
	harnessAPI["vFsList"] = func(r *Run, fr *frame, args []Value) Value {
		prefix := argStr(fr, args[0])
		var out Slice
		for _, n := range r.fs().order {
			f := r.fs().files[n]
			if f.exists && !f.isDir && strings.HasPrefix(n, prefix) {
				out = append(out, n)
			}
		}
		return out
	}
	harnessAPI["vFaults"] = func(r *Run, fr *frame, args []Value) Value {
		r.faultBudget = int(r.concretizeInt(fr, args[0].(*Term), true))
		return nil
	}
}

var _ = fmt.Sprintf

// release / acquire on a synchronisation object (race monitor): release joins the
// goroutine's clock into the object's, acquire joins the object's clock into the goroutine's.
func (r *Run) release(fr *frame, key interface{}) {
	if !r.eng.cfg.Race || fr == nil || fr.g == nil {
		return
	}
	if r.syncVC == nil {
		r.syncVC = map[interface{}]vclock{}
	}
	r.syncVC[key] = joinVC(r.syncVC[key], fr.g.snapshot())
	fr.g.tick()
}

func (r *Run) acquire(fr *frame, key interface{}) {
	if !r.eng.cfg.Race || fr == nil || fr.g == nil {
		return
	}
	if vc, ok := r.syncVC[key]; ok {
		fr.g.join(vc)
	}
}
