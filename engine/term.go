package main

// Term DAG: hash-consed SMT terms over Bool, fixed-width bit-vectors and Real.
// Concrete values are OpConst terms; every constructor folds constants so that
// purely concrete execution never reaches the solver.

import (
	"fmt"
	"math/big"
	"strings"
)

type Sort uint8

const (
	SBool Sort = 0
	SReal Sort = 200
	// bit-vector sorts are their width: 8, 16, 32, 64 (1..64 allowed)
)

func (s Sort) isBV() bool { return s >= 1 && s <= 64 }

func (s Sort) smt() string {
	switch {
	case s == SBool:
		return "Bool"
	case s == SReal:
		return "Real"
	}
	return fmt.Sprintf("(_ BitVec %d)", int(s))
}

type Op uint8

const (
	OpConst Op = iota
	OpVar
	OpNot
	OpAnd
	OpOr
	OpIte
	OpEq
	OpAdd
	OpSub
	OpMul
	OpUDiv
	OpURem
	OpSDiv
	OpSRem
	OpBAnd
	OpBOr
	OpBXor
	OpShl
	OpLShr
	OpAShr
	OpBNot
	OpNeg
	OpULt
	OpULe
	OpSLt
	OpSLe
	OpZExt
	OpSExt
	OpExtract // val = hi<<8 | lo
	OpConcat
	// reals
	OpRConst // rat holds value
	OpRAdd
	OpRSub
	OpRMul
	OpRDiv
	OpRNeg
	OpRLt
	OpRLe
	OpToReal  // from BV (unsigned interpretation); use SExt/sign handling outside
	OpSToReal // from BV signed
	OpUF      // uninterpreted function: name, args a,b (Real->Real etc.)
)

type Term struct {
	op   Op
	sort Sort
	a    *Term
	b    *Term
	c    *Term
	val  uint64
	name string
	rat  *big.Rat
	id   int32
	ub   uint8 // upper bound on the number of significant bits (BV sorts)
}

type termKey struct {
	op      Op
	sort    Sort
	a, b, c int32
	val     uint64
	name    string
}

// TermTab is a per-worker hash-consing table.
type TermTab struct {
	tab    map[termKey]*Term
	nextID int32
	tru    *Term
	fls    *Term
}

func NewTermTab() *TermTab {
	tt := &TermTab{tab: map[termKey]*Term{}}
	tt.tru = tt.mk(OpConst, SBool, nil, nil, nil, 1, "")
	tt.fls = tt.mk(OpConst, SBool, nil, nil, nil, 0, "")
	return tt
}

func tid(t *Term) int32 {
	if t == nil {
		return -1
	}
	return t.id
}

func (tt *TermTab) mk(op Op, s Sort, a, b, c *Term, val uint64, name string) *Term {
	k := termKey{op, s, tid(a), tid(b), tid(c), val, name}
	if t, ok := tt.tab[k]; ok {
		return t
	}
	tt.nextID++
	t := &Term{op: op, sort: s, a: a, b: b, c: c, val: val, name: name, id: tt.nextID}
	t.ub = ubitsOf(t)
	tt.tab[k] = t
	return t
}

func bitLen(v uint64) uint8 {
	n := uint8(0)
	for v != 0 {
		n++
		v >>= 1
	}
	return n
}

func minu8(a, b uint8) uint8 {
	if a < b {
		return a
	}
	return b
}
func maxu8(a, b uint8) uint8 {
	if a > b {
		return a
	}
	return b
}

// ubitsOf: a sound upper bound on the position of the highest set bit + 1.
func ubitsOf(t *Term) uint8 {
	if !t.sort.isBV() {
		return 0
	}
	w := uint8(t.sort)
	var u uint8 = w
	switch t.op {
	case OpConst:
		u = bitLen(t.val)
	case OpZExt:
		u = t.a.ub
	case OpAdd:
		u = maxu8(t.a.ub, t.b.ub) + 1
	case OpMul:
		if int(t.a.ub)+int(t.b.ub) < int(w) {
			u = t.a.ub + t.b.ub
		}
	case OpUDiv:
		u = t.a.ub
	case OpURem:
		u = minu8(t.a.ub, t.b.ub)
		if t.b.ub == 0 { // x % 0 = x in SMT-LIB
			u = t.a.ub
		}
	case OpBAnd:
		u = minu8(t.a.ub, t.b.ub)
	case OpBOr, OpBXor:
		u = maxu8(t.a.ub, t.b.ub)
	case OpLShr:
		u = t.a.ub
		if t.b.IsConst() {
			if t.b.val >= uint64(u) {
				u = 0
			} else {
				u -= uint8(t.b.val)
			}
		}
	case OpShl:
		if t.b.IsConst() && int(t.a.ub)+int(t.b.val) < int(w) {
			u = t.a.ub + uint8(t.b.val)
		}
	case OpIte:
		u = maxu8(t.b.ub, t.c.ub)
	case OpExtract:
		lo := uint8(t.val & 0xff)
		if t.a.ub <= lo {
			u = 0
		} else {
			u = t.a.ub - lo
		}
	case OpConcat:
		if t.a.ub == 0 {
			u = t.b.ub
		} else {
			u = t.a.ub + uint8(t.b.sort)
		}
	}
	if u > w {
		u = w
	}
	return u
}

// narrowWidth picks a convenient width >= need.
func narrowWidth(need uint8) Sort {
	switch {
	case need <= 8:
		return 8
	case need <= 16:
		return 16
	case need <= 24:
		return 24
	case need <= 32:
		return 32
	case need <= 40:
		return 40
	case need <= 48:
		return 48
	}
	return 64
}

func mask(s Sort) uint64 {
	if s >= 64 {
		return ^uint64(0)
	}
	return (uint64(1) << uint(s)) - 1
}

func signExt(v uint64, s Sort) int64 {
	if s >= 64 {
		return int64(v)
	}
	sh := 64 - uint(s)
	return int64(v<<sh) >> sh
}

func (t *Term) IsConst() bool { return t.op == OpConst }
func (t *Term) IsTrue() bool  { return t.op == OpConst && t.sort == SBool && t.val == 1 }
func (t *Term) IsFalse() bool { return t.op == OpConst && t.sort == SBool && t.val == 0 }

func (tt *TermTab) Const(s Sort, v uint64) *Term {
	if s == SBool {
		if v != 0 {
			return tt.tru
		}
		return tt.fls
	}
	return tt.mk(OpConst, s, nil, nil, nil, v&mask(s), "")
}
func (tt *TermTab) Bool(b bool) *Term {
	if b {
		return tt.tru
	}
	return tt.fls
}
func (tt *TermTab) Var(s Sort, name string) *Term {
	return tt.mk(OpVar, s, nil, nil, nil, 0, name)
}

func (tt *TermTab) Not(a *Term) *Term {
	if a.IsConst() {
		return tt.Bool(a.val == 0)
	}
	if a.op == OpNot {
		return a.a
	}
	return tt.mk(OpNot, SBool, a, nil, nil, 0, "")
}
func (tt *TermTab) And(a, b *Term) *Term {
	if a.IsConst() {
		if a.val == 0 {
			return tt.fls
		}
		return b
	}
	if b.IsConst() {
		if b.val == 0 {
			return tt.fls
		}
		return a
	}
	if a == b {
		return a
	}
	return tt.mk(OpAnd, SBool, a, b, nil, 0, "")
}
func (tt *TermTab) Or(a, b *Term) *Term {
	if a.IsConst() {
		if a.val != 0 {
			return tt.tru
		}
		return b
	}
	if b.IsConst() {
		if b.val != 0 {
			return tt.tru
		}
		return a
	}
	if a == b {
		return a
	}
	return tt.mk(OpOr, SBool, a, b, nil, 0, "")
}
func (tt *TermTab) Ite(c, a, b *Term) *Term {
	if c.IsConst() {
		if c.val != 0 {
			return a
		}
		return b
	}
	if a == b {
		return a
	}
	if a.sort == SBool {
		if a.IsTrue() && b.IsFalse() {
			return c
		}
		if a.IsFalse() && b.IsTrue() {
			return tt.Not(c)
		}
	}
	return tt.mk(OpIte, a.sort, c, a, b, 0, "")
}
func (tt *TermTab) Eq(a, b *Term) *Term {
	if a == b {
		return tt.tru
	}
	if a.sort != b.sort {
		panic(fmt.Sprintf("Eq: sort mismatch %v %v", a.sort, b.sort))
	}
	if a.IsConst() && b.IsConst() {
		return tt.Bool(a.val == b.val)
	}
	if a.op == OpRConst && b.op == OpRConst {
		return tt.Bool(a.rat.Cmp(b.rat) == 0)
	}
	if a.sort == SBool {
		if a.IsConst() {
			if a.val != 0 {
				return b
			}
			return tt.Not(b)
		}
		if b.IsConst() {
			if b.val != 0 {
				return a
			}
			return tt.Not(a)
		}
	}
	// (x + c1) == c2  ->  x == c2-c1
	if a.sort.isBV() {
		if a.op == OpAdd && a.b.IsConst() && b.IsConst() {
			return tt.Eq(a.a, tt.Const(a.sort, b.val-a.b.val))
		}
		if b.op == OpAdd && b.b.IsConst() && a.IsConst() {
			return tt.Eq(b.a, tt.Const(a.sort, a.val-b.b.val))
		}
		// zext(x) == const
		if a.op == OpZExt && b.IsConst() {
			if b.val > mask(a.a.sort) {
				return tt.fls
			}
			return tt.Eq(a.a, tt.Const(a.a.sort, b.val))
		}
		if b.op == OpZExt && a.IsConst() {
			return tt.Eq(b, a)
		}
	}
	if a.id > b.id {
		a, b = b, a
	}
	return tt.mk(OpEq, SBool, a, b, nil, 0, "")
}

func evalBin(op Op, s Sort, x, y uint64) (uint64, bool) {
	m := mask(s)
	switch op {
	case OpAdd:
		return (x + y) & m, true
	case OpSub:
		return (x - y) & m, true
	case OpMul:
		return (x * y) & m, true
	case OpUDiv:
		if y == 0 {
			return m, true
		}
		return x / y, true
	case OpURem:
		if y == 0 {
			return x, true
		}
		return x % y, true
	case OpSDiv:
		sx, sy := signExt(x, s), signExt(y, s)
		if sy == 0 {
			if sx >= 0 {
				return m, true
			}
			return 1, true
		}
		if sy == -1 {
			return uint64(-sx) & m, true
		}
		return uint64(sx/sy) & m, true
	case OpSRem:
		sx, sy := signExt(x, s), signExt(y, s)
		if sy == 0 {
			return x, true
		}
		if sy == -1 {
			return 0, true
		}
		return uint64(sx%sy) & m, true
	case OpBAnd:
		return x & y, true
	case OpBOr:
		return x | y, true
	case OpBXor:
		return x ^ y, true
	case OpShl:
		if y >= uint64(s) {
			return 0, true
		}
		return (x << y) & m, true
	case OpLShr:
		if y >= uint64(s) {
			return 0, true
		}
		return x >> y, true
	case OpAShr:
		sx := signExt(x, s)
		if y >= uint64(s) {
			y = uint64(s) - 1
		}
		return uint64(sx>>y) & m, true
	case OpULt:
		return b2u(x < y), true
	case OpULe:
		return b2u(x <= y), true
	case OpSLt:
		return b2u(signExt(x, s) < signExt(y, s)), true
	case OpSLe:
		return b2u(signExt(x, s) <= signExt(y, s)), true
	}
	return 0, false
}

func b2u(b bool) uint64 {
	if b {
		return 1
	}
	return 0
}

// BV binary arithmetic.
func (tt *TermTab) Bin(op Op, a, b *Term) *Term {
	if a.sort != b.sort {
		panic(fmt.Sprintf("Bin %d: sort mismatch %v %v", op, a.sort, b.sort))
	}
	s := a.sort
	if a.IsConst() && b.IsConst() {
		v, ok := evalBin(op, s, a.val, b.val)
		if !ok {
			panic("evalBin")
		}
		return tt.Const(s, v)
	}
	// value-range narrowing: division/remainder/multiplication on operands whose
	// high bits are known zero are computed at a smaller width (sound, and far
	// cheaper for bit-blasting solvers)
	if s > 8 {
		switch op {
		case OpUDiv, OpURem, OpSDiv, OpSRem:
			need := maxu8(a.ub, b.ub)
			signedOp := op == OpSDiv || op == OpSRem
			if signedOp {
				need++ // both operands non-negative at the narrow width
			}
			if nw := narrowWidth(need); nw < s && !(b.IsConst() && b.val == 0) && (!signedOp || (a.ub < uint8(s) && b.ub < uint8(s))) {
				uop := op
				if op == OpSDiv {
					uop = OpUDiv
				} else if op == OpSRem {
					uop = OpURem
				}
				// division by zero keeps SMT-LIB semantics only for the unsigned ops at full
				// width; Go panics before evaluating, so callers never depend on it
				return tt.ZExt(tt.Bin(uop, tt.Extract(a, int(nw)-1, 0), tt.Extract(b, int(nw)-1, 0)), s)
			}
		case OpMul:
			if !a.IsConst() && !b.IsConst() {
				need := int(a.ub) + int(b.ub)
				if need < int(s) {
					if nw := narrowWidth(uint8(need)); nw < s {
						return tt.ZExt(tt.Bin(OpMul, tt.Extract(a, int(nw)-1, 0), tt.Extract(b, int(nw)-1, 0)), s)
					}
				}
			}
		}
	}
	switch op {
	case OpAdd:
		if a.IsConst() {
			a, b = b, a
		}
		if b.IsConst() {
			if b.val == 0 {
				return a
			}
			if a.op == OpAdd && a.b.IsConst() {
				return tt.Bin(OpAdd, a.a, tt.Const(s, a.b.val+b.val))
			}
		}
	case OpSub:
		if a == b {
			return tt.Const(s, 0)
		}
		if b.IsConst() {
			return tt.Bin(OpAdd, a, tt.Const(s, -b.val))
		}
		// (x + c) - x = c ; (x + c1) - (x + c2) = c1-c2
		if a.op == OpAdd && a.b.IsConst() && a.a == b {
			return a.b
		}
		if a.op == OpAdd && b.op == OpAdd && a.b.IsConst() && b.b.IsConst() && a.a == b.a {
			return tt.Const(s, a.b.val-b.b.val)
		}
		if b.op == OpAdd && b.b.IsConst() && b.a == a {
			return tt.Const(s, -b.b.val)
		}
	case OpMul:
		if a.IsConst() {
			a, b = b, a
		}
		if b.IsConst() {
			if b.val == 0 {
				return b
			}
			if b.val == 1 {
				return a
			}
		}
	case OpBAnd:
		if a.IsConst() {
			a, b = b, a
		}
		if b.IsConst() {
			if b.val == 0 {
				return b
			}
			if b.val == mask(s) {
				return a
			}
		}
		if a == b {
			return a
		}
	case OpBOr:
		if a.IsConst() {
			a, b = b, a
		}
		if b.IsConst() {
			if b.val == 0 {
				return a
			}
			if b.val == mask(s) {
				return b
			}
		}
		if a == b {
			return a
		}
	case OpBXor:
		if a.IsConst() {
			a, b = b, a
		}
		if b.IsConst() && b.val == 0 {
			return a
		}
		if a == b {
			return tt.Const(s, 0)
		}
	case OpShl, OpLShr, OpAShr:
		if b.IsConst() && b.val == 0 {
			return a
		}
	case OpUDiv, OpSDiv:
		if b.IsConst() && b.val == 1 {
			return a
		}
	}
	return tt.mk(op, s, a, b, nil, 0, "")
}

// Cmp builds comparison op (OpULt etc.) returning Bool.
func (tt *TermTab) Cmp(op Op, a, b *Term) *Term {
	if a.sort != b.sort {
		panic(fmt.Sprintf("Cmp: sort mismatch %v %v", a.sort, b.sort))
	}
	if a.IsConst() && b.IsConst() {
		v, _ := evalBin(op, a.sort, a.val, b.val)
		return tt.Bool(v != 0)
	}
	if a == b {
		return tt.Bool(op == OpULe || op == OpSLe)
	}
	// x+c1 <s x+c2 is not safely foldable under wrap; leave.
	return tt.mk(op, SBool, a, b, nil, 0, "")
}

func (tt *TermTab) BNot(a *Term) *Term {
	if a.IsConst() {
		return tt.Const(a.sort, ^a.val)
	}
	return tt.mk(OpBNot, a.sort, a, nil, nil, 0, "")
}
func (tt *TermTab) Neg(a *Term) *Term {
	if a.IsConst() {
		return tt.Const(a.sort, -a.val)
	}
	return tt.mk(OpNeg, a.sort, a, nil, nil, 0, "")
}

func (tt *TermTab) ZExt(a *Term, to Sort) *Term {
	if a.sort == to {
		return a
	}
	if a.sort > to {
		return tt.Extract(a, int(to)-1, 0)
	}
	if a.IsConst() {
		return tt.Const(to, a.val)
	}
	return tt.mk(OpZExt, to, a, nil, nil, 0, "")
}
func (tt *TermTab) SExt(a *Term, to Sort) *Term {
	if a.sort == to {
		return a
	}
	if a.sort > to {
		return tt.Extract(a, int(to)-1, 0)
	}
	if a.IsConst() {
		return tt.Const(to, uint64(signExt(a.val, a.sort)))
	}
	return tt.mk(OpSExt, to, a, nil, nil, 0, "")
}
func (tt *TermTab) Extract(a *Term, hi, lo int) *Term {
	w := Sort(hi - lo + 1)
	if lo == 0 && w == a.sort {
		return a
	}
	if a.IsConst() {
		return tt.Const(w, a.val>>uint(lo))
	}
	// extract of zext/sext fully within the original
	if (a.op == OpZExt || a.op == OpSExt) && hi < int(a.a.sort) {
		return tt.Extract(a.a, hi, lo)
	}
	if a.op == OpZExt && lo >= int(a.a.sort) {
		return tt.Const(w, 0)
	}
	if a.op == OpConcat {
		lw := int(a.b.sort)
		if hi < lw {
			return tt.Extract(a.b, hi, lo)
		}
		if lo >= lw {
			return tt.Extract(a.a, hi-lw, lo-lw)
		}
	}
	if a.op == OpExtract {
		ilo := int(a.val & 0xff)
		return tt.Extract(a.a, hi+ilo, lo+ilo)
	}
	return tt.mk(OpExtract, w, a, nil, nil, uint64(hi)<<8|uint64(lo), "")
}

// Concat: a is the high part.
func (tt *TermTab) Concat(a, b *Term) *Term {
	w := a.sort + b.sort
	if a.IsConst() && b.IsConst() {
		return tt.Const(w, a.val<<uint(b.sort)|b.val)
	}
	// concat(extract(x,hi,m+1), extract(x,m,lo)) = extract(x,hi,lo)
	if a.op == OpExtract && b.op == OpExtract && a.a == b.a {
		alo := int(a.val & 0xff)
		bhi := int(b.val >> 8)
		if alo == bhi+1 {
			return tt.Extract(a.a, int(a.val>>8), int(b.val&0xff))
		}
	}
	if b.op == OpExtract && int(b.val&0xff) == 0 && a.op == OpExtract && a.a == b.a {
		// handled above
	}
	return tt.mk(OpConcat, w, a, b, nil, 0, "")
}

// ---- Reals

func (tt *TermTab) RConst(r *big.Rat) *Term {
	k := termKey{op: OpRConst, sort: SReal, a: -1, b: -1, c: -1, name: r.RatString()}
	if t, ok := tt.tab[k]; ok {
		return t
	}
	tt.nextID++
	t := &Term{op: OpRConst, sort: SReal, rat: new(big.Rat).Set(r), name: r.RatString(), id: tt.nextID}
	tt.tab[k] = t
	return t
}

func (tt *TermTab) RBin(op Op, a, b *Term) *Term {
	if a.op == OpRConst && b.op == OpRConst {
		r := new(big.Rat)
		switch op {
		case OpRAdd:
			return tt.RConst(r.Add(a.rat, b.rat))
		case OpRSub:
			return tt.RConst(r.Sub(a.rat, b.rat))
		case OpRMul:
			return tt.RConst(r.Mul(a.rat, b.rat))
		case OpRDiv:
			if b.rat.Sign() != 0 {
				return tt.RConst(r.Quo(a.rat, b.rat))
			}
		case OpRLt:
			return tt.Bool(a.rat.Cmp(b.rat) < 0)
		case OpRLe:
			return tt.Bool(a.rat.Cmp(b.rat) <= 0)
		}
	}
	s := SReal
	if op == OpRLt || op == OpRLe {
		s = SBool
	}
	return tt.mk(op, s, a, b, nil, 0, "")
}
func (tt *TermTab) RNeg(a *Term) *Term {
	if a.op == OpRConst {
		return tt.RConst(new(big.Rat).Neg(a.rat))
	}
	return tt.mk(OpRNeg, SReal, a, nil, nil, 0, "")
}
func (tt *TermTab) ToReal(a *Term, signed bool) *Term {
	if a.IsConst() {
		if signed {
			return tt.RConst(new(big.Rat).SetInt64(signExt(a.val, a.sort)))
		}
		return tt.RConst(new(big.Rat).SetInt(new(big.Int).SetUint64(a.val)))
	}
	// the value of an extension is the value of what it extends
	for a.op == OpZExt || a.op == OpSExt {
		if a.op == OpZExt {
			signed = false
		} else if !signed {
			break // unsigned reading of a sign extension: keep the wide term
		}
		a = a.a
	}
	if signed {
		return tt.mk(OpSToReal, SReal, a, nil, nil, 0, "")
	}
	return tt.mk(OpToReal, SReal, a, nil, nil, 0, "")
}
func (tt *TermTab) UF(name string, s Sort, a, b *Term) *Term {
	return tt.mk(OpUF, s, a, b, nil, 0, name)
}

// ---- evaluation under a model (BV/Bool only; Real vars unsupported -> ok=false)

type Model map[string]uint64

func (t *Term) Eval(m Model, memo map[*Term]uint64) (uint64, bool) {
	if v, ok := memo[t]; ok {
		return v, true
	}
	var r uint64
	switch t.op {
	case OpConst:
		return t.val, true
	case OpVar:
		v, ok := m[t.name]
		if !ok {
			v = 0
		}
		r = v & mask(t.sort)
		if t.sort == SBool {
			r = b2u(v != 0)
		}
	case OpNot:
		x, ok := t.a.Eval(m, memo)
		if !ok {
			return 0, false
		}
		r = 1 - x
	case OpAnd, OpOr:
		x, ok := t.a.Eval(m, memo)
		if !ok {
			return 0, false
		}
		y, ok := t.b.Eval(m, memo)
		if !ok {
			return 0, false
		}
		if t.op == OpAnd {
			r = x & y
		} else {
			r = x | y
		}
	case OpIte:
		c, ok := t.a.Eval(m, memo)
		if !ok {
			return 0, false
		}
		if c != 0 {
			r, ok = t.b.Eval(m, memo)
		} else {
			r, ok = t.c.Eval(m, memo)
		}
		if !ok {
			return 0, false
		}
	case OpEq:
		if t.a.sort == SReal {
			return 0, false
		}
		x, ok := t.a.Eval(m, memo)
		if !ok {
			return 0, false
		}
		y, ok := t.b.Eval(m, memo)
		if !ok {
			return 0, false
		}
		r = b2u(x == y)
	case OpBNot:
		x, ok := t.a.Eval(m, memo)
		if !ok {
			return 0, false
		}
		r = ^x & mask(t.sort)
	case OpNeg:
		x, ok := t.a.Eval(m, memo)
		if !ok {
			return 0, false
		}
		r = -x & mask(t.sort)
	case OpZExt:
		x, ok := t.a.Eval(m, memo)
		if !ok {
			return 0, false
		}
		r = x
	case OpSExt:
		x, ok := t.a.Eval(m, memo)
		if !ok {
			return 0, false
		}
		r = uint64(signExt(x, t.a.sort)) & mask(t.sort)
	case OpExtract:
		x, ok := t.a.Eval(m, memo)
		if !ok {
			return 0, false
		}
		r = (x >> (t.val & 0xff)) & mask(t.sort)
	case OpConcat:
		x, ok := t.a.Eval(m, memo)
		if !ok {
			return 0, false
		}
		y, ok := t.b.Eval(m, memo)
		if !ok {
			return 0, false
		}
		r = x<<uint(t.b.sort) | y
	default:
		if t.a != nil && t.b != nil && t.a.sort.isBV() {
			x, ok := t.a.Eval(m, memo)
			if !ok {
				return 0, false
			}
			y, ok := t.b.Eval(m, memo)
			if !ok {
				return 0, false
			}
			v, ok2 := evalBin(t.op, t.a.sort, x, y)
			if !ok2 {
				return 0, false
			}
			r = v
		} else {
			return 0, false
		}
	}
	memo[t] = r
	return r, true
}

// ---- SMT-LIB printing

func bvLit(s Sort, v uint64) string {
	if s%4 == 0 {
		return fmt.Sprintf("#x%0*x", int(s)/4, v&mask(s))
	}
	return fmt.Sprintf("#b%0*b", int(s), v&mask(s))
}

var opName = map[Op]string{
	OpNot: "not", OpAnd: "and", OpOr: "or", OpIte: "ite", OpEq: "=",
	OpAdd: "bvadd", OpSub: "bvsub", OpMul: "bvmul", OpUDiv: "bvudiv", OpURem: "bvurem",
	OpSDiv: "bvsdiv", OpSRem: "bvsrem", OpBAnd: "bvand", OpBOr: "bvor", OpBXor: "bvxor",
	OpShl: "bvshl", OpLShr: "bvlshr", OpAShr: "bvashr", OpBNot: "bvnot", OpNeg: "bvneg",
	OpULt: "bvult", OpULe: "bvule", OpSLt: "bvslt", OpSLe: "bvsle", OpConcat: "concat",
	OpRAdd: "+", OpRSub: "-", OpRMul: "*", OpRDiv: "/", OpRNeg: "-", OpRLt: "<", OpRLe: "<=",
}

func smtName(n string) string {
	return "|" + strings.NewReplacer("|", "_", "\\", "_").Replace(n) + "|"
}

func ratSMT(r *big.Rat) string {
	num, den := r.Num(), r.Denom()
	ns := new(big.Int).Abs(num).String() + ".0"
	s := ns
	if !den.IsInt64() || den.Int64() != 1 {
		s = "(/ " + ns + " " + den.String() + ".0)"
	}
	if num.Sign() < 0 {
		s = "(- " + s + ")"
	}
	return s
}

// ref returns how term t is referred to inside other terms, given that
// non-leaf terms are named by define-fun.
func (t *Term) ref() string {
	switch t.op {
	case OpConst:
		if t.sort == SBool {
			if t.val != 0 {
				return "true"
			}
			return "false"
		}
		return bvLit(t.sort, t.val)
	case OpRConst:
		return ratSMT(t.rat)
	case OpVar:
		return smtName(t.name)
	}
	return fmt.Sprintf("t%d", t.id)
}

// body returns the SMT expression of t in terms of refs of its children.
func (t *Term) body() string {
	switch t.op {
	case OpZExt:
		return fmt.Sprintf("((_ zero_extend %d) %s)", int(t.sort)-int(t.a.sort), t.a.ref())
	case OpSExt:
		return fmt.Sprintf("((_ sign_extend %d) %s)", int(t.sort)-int(t.a.sort), t.a.ref())
	case OpExtract:
		return fmt.Sprintf("((_ extract %d %d) %s)", t.val>>8, t.val&0xff, t.a.ref())
	case OpToReal, OpSToReal:
		// sum of weighted bits: linear real arithmetic over the bits, which the solvers
		// handle far better than bv2nat
		w := int(t.a.sort)
		var sb strings.Builder
		sb.WriteString("(+ 0.0")
		for i := 0; i < w; i++ {
			wt := new(big.Int).Lsh(big.NewInt(1), uint(i)).String() + ".0"
			if t.op == OpSToReal && i == w-1 {
				wt = "(- " + wt + ")"
			}
			fmt.Fprintf(&sb, " (ite (= ((_ extract %d %d) %s) #b1) %s 0.0)", i, i, t.a.ref(), wt)
		}
		sb.WriteString(")")
		return sb.String()
	case OpUF:
		if t.b != nil {
			return fmt.Sprintf("(%s %s %s)", smtName(t.name), t.a.ref(), t.b.ref())
		}
		return fmt.Sprintf("(%s %s)", smtName(t.name), t.a.ref())
	}
	n, ok := opName[t.op]
	if !ok {
		panic(fmt.Sprintf("body: op %d", t.op))
	}
	var sb strings.Builder
	sb.WriteString("(")
	sb.WriteString(n)
	for _, x := range []*Term{t.a, t.b, t.c} {
		if x != nil {
			sb.WriteString(" ")
			sb.WriteString(x.ref())
		}
	}
	sb.WriteString(")")
	return sb.String()
}

func (t *Term) isLeaf() bool { return t.op == OpConst || t.op == OpVar || t.op == OpRConst }

func (t *Term) String() string {
	if t.isLeaf() {
		return t.ref()
	}
	return t.exprString(0)
}

func (t *Term) exprString(depth int) string {
	if t.isLeaf() {
		return t.ref()
	}
	if depth > 6 {
		return "…"
	}
	var sb strings.Builder
	switch t.op {
	case OpZExt:
		return "(zext " + t.a.exprString(depth+1) + ")"
	case OpSExt:
		return "(sext " + t.a.exprString(depth+1) + ")"
	case OpExtract:
		return fmt.Sprintf("(extract[%d:%d] %s)", t.val>>8, t.val&0xff, t.a.exprString(depth+1))
	case OpUF, OpToReal, OpSToReal:
		sb.WriteString("(" + t.name + "#" + fmt.Sprint(t.op))
	default:
		sb.WriteString("(" + opName[t.op])
	}
	for _, x := range []*Term{t.a, t.b, t.c} {
		if x != nil {
			sb.WriteString(" " + x.exprString(depth+1))
		}
	}
	sb.WriteString(")")
	return sb.String()
}

// realBounds returns an interval containing the real term's value, derived from its
// structure only (so that re-executions of a path prefix agree), or ok=false.
func realBounds(t *Term, depth int) (lo, hi *big.Rat, ok bool) {
	if t == nil || depth > 40 {
		return nil, nil, false
	}
	switch t.op {
	case OpRConst:
		return t.rat, t.rat, true
	case OpToReal:
		w := uint(t.a.sort)
		if t.a.ub > 0 && uint(t.a.ub) < w {
			w = uint(t.a.ub)
		}
		h := new(big.Int).Sub(new(big.Int).Lsh(big.NewInt(1), w), big.NewInt(1))
		return new(big.Rat), new(big.Rat).SetInt(h), true
	case OpSToReal:
		w := uint(t.a.sort)
		h := new(big.Int).Lsh(big.NewInt(1), w-1)
		return new(big.Rat).SetInt(new(big.Int).Neg(h)), new(big.Rat).SetInt(new(big.Int).Sub(h, big.NewInt(1))), true
	case OpRNeg:
		l, h, ok := realBounds(t.a, depth+1)
		if !ok {
			return nil, nil, false
		}
		return new(big.Rat).Neg(h), new(big.Rat).Neg(l), true
	case OpRAdd, OpRSub, OpRMul:
		la, ha, ok1 := realBounds(t.a, depth+1)
		lb, hb, ok2 := realBounds(t.b, depth+1)
		if !ok1 || !ok2 {
			return nil, nil, false
		}
		switch t.op {
		case OpRAdd:
			return new(big.Rat).Add(la, lb), new(big.Rat).Add(ha, hb), true
		case OpRSub:
			return new(big.Rat).Sub(la, hb), new(big.Rat).Sub(ha, lb), true
		}
		var mn, mx *big.Rat
		for _, x := range []*big.Rat{la, ha} {
			for _, y := range []*big.Rat{lb, hb} {
				p := new(big.Rat).Mul(x, y)
				if mn == nil || p.Cmp(mn) < 0 {
					mn = p
				}
				if mx == nil || p.Cmp(mx) > 0 {
					mx = p
				}
			}
		}
		return mn, mx, true
	case OpIte:
		la, ha, ok1 := realBounds(t.b, depth+1)
		lb, hb, ok2 := realBounds(t.c, depth+1)
		if !ok1 || !ok2 {
			return nil, nil, false
		}
		if lb.Cmp(la) < 0 {
			la = lb
		}
		if hb.Cmp(ha) > 0 {
			ha = hb
		}
		return la, ha, true
	}
	return nil, nil, false
}
