package main

import (
	"encoding/json"
	"flag"
	"fmt"
	"go/parser"
	"go/token"
	"os"
	"path/filepath"
	"sort"
	"strings"
	"time"

	"golang.org/x/tools/go/packages"
	"golang.org/x/tools/go/ssa"
	"golang.org/x/tools/go/ssa/ssautil"
)

const repoModule = "github.com/usnistgov/dastard"

var verifDir = "/verif"

func init() {
	if d := os.Getenv("VERIF_DIR"); d != "" {
		verifDir = d
	}
}

// stdInitWhitelist: non-repo packages whose init functions are executed
// (once per worker). Everything else keeps zero-valued globals.
var stdInitWhitelist = map[string]bool{
	"io": true, "bytes": true, "bufio": true, "encoding/binary": true,
	"sort": true, "strings": true, "strconv": true, "math": true, "math/bits": true,
	"unicode/utf8": true, "slices": true, "cmp": true, "container/heap": true,
	"gonum.org/v1/gonum/mat": true, "gonum.org/v1/gonum/blas/blas64": true, "gonum.org/v1/gonum/blas/gonum": true,
	"gonum.org/v1/gonum/lapack/lapack64": true, "gonum.org/v1/gonum/lapack/gonum": true,
	"gonum.org/v1/gonum/floats": true, "gonum.org/v1/gonum/blas": true, "gonum.org/v1/gonum/lapack": true,
	"gonum.org/v1/gonum/internal/asm/f64": true,
}

func (e *Engine) isRepoPkg(p *ssa.Package) bool {
	if p == nil || p.Pkg == nil {
		return false
	}
	path := p.Pkg.Path()
	return path == e.repoMod || strings.HasPrefix(path, e.repoMod+"/")
}

// harnessOverlay builds the overlay map injecting harness files into repoDir.
// /verif/harness/<dir>/*.go  ->  <repo>/<dir>/zz_verif_<name>.go ("root" = module root)
// and the API file generated from harness/api.go.tmpl for every package dir used.
func harnessOverlay(repoDir string) (map[string][]byte, []string, error) {
	ov := map[string][]byte{}
	hroot := filepath.Join(verifDir, "harness")
	tmpl, err := os.ReadFile(filepath.Join(hroot, "api.go.tmpl"))
	if err != nil {
		return nil, nil, err
	}
	ents, err := os.ReadDir(hroot)
	if err != nil {
		return nil, nil, err
	}
	var dirs []string
	for _, ent := range ents {
		if !ent.IsDir() {
			continue
		}
		sub := ent.Name()
		pdir := repoDir
		if sub != "root" {
			pdir = filepath.Join(repoDir, strings.ReplaceAll(sub, "__", "/"))
		}
		pkgName, err := packageNameOf(pdir)
		if err != nil {
			return nil, nil, fmt.Errorf("harness dir %s: %v", sub, err)
		}
		files, _ := filepath.Glob(filepath.Join(hroot, sub, "*.go"))
		if len(files) == 0 {
			continue
		}
		dirs = append(dirs, pdir)
		for _, f := range files {
			b, err := os.ReadFile(f)
			if err != nil {
				return nil, nil, err
			}
			ov[filepath.Join(pdir, "zz_verif_"+filepath.Base(f))] = b
		}
		api := strings.Replace(string(tmpl), "package PKGNAME", "package "+pkgName, 1)
		ov[filepath.Join(pdir, "zz_verif_api.go")] = []byte(api)
	}
	return ov, dirs, nil
}

func packageNameOf(dir string) (string, error) {
	files, _ := filepath.Glob(filepath.Join(dir, "*.go"))
	fset := token.NewFileSet()
	for _, f := range files {
		if strings.HasSuffix(f, "_test.go") {
			continue
		}
		af, err := parser.ParseFile(fset, f, nil, parser.PackageClauseOnly)
		if err == nil {
			return af.Name.Name, nil
		}
	}
	return "", fmt.Errorf("no Go package in %s", dir)
}

func loadEngine(repoDir string, patterns []string, cfg Config) (*Engine, error) {
	ov, _, err := harnessOverlay(repoDir)
	if err != nil {
		return nil, err
	}
	env := append(os.Environ(), "GOFLAGS=-mod=mod", "GOPROXY=off", "GOSUMDB=off", "GOTOOLCHAIN=local")
	pcfg := &packages.Config{
		Mode:       packages.NeedName | packages.NeedFiles | packages.NeedCompiledGoFiles | packages.NeedImports | packages.NeedDeps | packages.NeedTypes | packages.NeedSyntax | packages.NeedTypesInfo | packages.NeedTypesSizes | packages.NeedModule,
		Dir:        repoDir,
		Overlay:    ov,
		BuildFlags: []string{"-tags=verif,noasm"},
		Env:        env,
	}
	pkgs, err := packages.Load(pcfg, patterns...)
	if err != nil {
		return nil, err
	}
	nerr := 0
	packages.Visit(pkgs, nil, func(p *packages.Package) {
		for _, e := range p.Errors {
			if nerr < 20 {
				fmt.Fprintln(os.Stderr, "load error:", e)
			}
			nerr++
		}
	})
	if nerr > 0 {
		return nil, fmt.Errorf("%d package load errors (the tree does not type-check with the harness overlay)", nerr)
	}
	prog, _ := ssautil.AllPackages(pkgs, ssa.InstantiateGenerics)
	prog.Build()
	e := &Engine{prog: prog, pkgs: map[string]*ssa.Package{}, repoDir: repoDir, repoMod: repoModule, cfg: cfg,
		icCache: map[*ssa.Function]interceptFn{}, traceOut: os.Stderr}
	for _, p := range prog.AllPackages() {
		e.pkgs[p.Pkg.Path()] = p
	}
	if len(pkgs) > 0 {
		e.sizes = pkgs[0].TypesSizes
	}
	return e, nil
}

func (r *Run) globalAddr(g *ssa.Global) *Value {
	if r.eng.isRepoPkg(g.Pkg) {
		if c, ok := r.globals[g]; ok {
			return c
		}
		c := new(Value)
		*c = r.zero(deref(g.Type()))
		r.globals[g] = c
		return c
	}
	if c, ok := r.w.stdGlobals[g]; ok {
		return c
	}
	c := new(Value)
	*c = r.zero(deref(g.Type()))
	r.w.stdGlobals[g] = c
	return c
}

// initPackages runs the package initialisers of the repo packages (per path).
func (r *Run) initPackages() {
	var names []string
	for path, p := range r.eng.pkgs {
		if r.eng.isRepoPkg(p) {
			names = append(names, path)
		}
	}
	sort.Strings(names)
	for _, n := range names {
		p := r.eng.pkgs[n]
		if strings.HasSuffix(n, "/cmd/dastard") || strings.Contains(n, "/cmd/") {
			continue
		}
		if f := p.Func("init"); f != nil {
			r.callSSA(nil, 0, f, nil, nil)
		}
	}
}

func init() {
	// package initialisers of non-repo packages: run once per worker if whitelisted
	initIC = func(r *Run, fr *frame, args []Value) Value {
		p := fr.fn.Pkg
		if r.w.stdInited[p] {
			return nil
		}
		r.w.stdInited[p] = true
		if !stdInitWhitelist[p.Pkg.Path()] {
			return nil
		}
		// execute real init body (bypassing the intercept)
		r.execBody(fr)
		return nil
	}
}

var initIC interceptFn

func (r *Run) execBody(fr *frame) {
	fn := fr.fn
	if fn.Blocks == nil {
		return
	}
	fr.env = make(map[ssa.Value]Value, 16)
	fr.block = fn.Blocks[0]
	fr.locals = make([]Value, len(fn.Locals))
	for i, l := range fn.Locals {
		fr.locals[i] = r.zero(deref(l.Type()))
		fr.env[l] = &fr.locals[i]
	}
	for fr.block != nil {
		r.runFrame(fr)
	}
}

func main() {
	if len(os.Args) < 2 {
		fmt.Fprintln(os.Stderr, "usage: gosym run|check ...")
		os.Exit(2)
	}
	switch os.Args[1] {
	case "run":
		cmdRun(os.Args[2:])
	case "check":
		cmdCheck(os.Args[2:])
	default:
		fmt.Fprintln(os.Stderr, "unknown subcommand", os.Args[1])
		os.Exit(2)
	}
}

func defaultConfig() Config {
	return Config{MaxSteps: 3000000, MaxLoop: 4000, MaxDepth: 200, MaxAlloc: 1 << 18, MaxIte: 64,
		Solver: "z3-new", TimeoutMS: 20000, Workers: 16, CtxBound: 3, EnvFires: 3}
}

func cmdRun(args []string) {
	fs := flag.NewFlagSet("run", flag.ExitOnError)
	cfg := defaultConfig()
	repo := fs.String("repo", "/repo", "repository root")
	pkg := fs.String("pkg", ".", "package pattern (relative to repo) containing the harness")
	harness := fs.String("harness", "", "harness function name")
	fs.IntVar(&cfg.Workers, "workers", cfg.Workers, "parallel workers")
	fs.IntVar(&cfg.MaxPaths, "maxpaths", 0, "path budget")
	fs.IntVar(&cfg.MaxSteps, "maxsteps", cfg.MaxSteps, "per-path instruction budget")
	fs.IntVar(&cfg.MaxLoop, "maxloop", cfg.MaxLoop, "loop unwinding bound")
	fs.StringVar(&cfg.Solver, "solver", cfg.Solver, "z3-new | z3 | cvc5 | cvc5-bv")
	fs.IntVar(&cfg.TimeoutMS, "timeout", cfg.TimeoutMS, "per-query timeout ms")
	fs.BoolVar(&cfg.Trace, "trace", false, "trace instructions")
	fs.BoolVar(&cfg.RealFloats, "real", false, "idealised real arithmetic for floats")
	fs.BoolVar(&cfg.MapOrders, "maporders", false, "explore map iteration orders")
	fs.IntVar(&cfg.SchedMode, "sched", 0, "0 run-to-block, 1 symbolic scheduler")
	fs.IntVar(&cfg.CtxBound, "ctx", cfg.CtxBound, "context switch bound")
	fs.IntVar(&cfg.EnvFires, "envfires", cfg.EnvFires, "environment firings bound")
	fs.BoolVar(&cfg.Race, "race", false, "happens-before race monitor")
	fs.IntVar(&cfg.NPBound, "npbound", 0, "bound on free scheduling choices at blocking points")
	fs.BoolVar(&cfg.EnvBoundOK, "envboundok", false, "timer budget exhaustion truncates the path instead of reporting a deadlock")
	fs.BoolVar(&cfg.SelectLast, "selectlast", false, "select takes the last ready case")
	fs.IntVar(&cfg.LazyFires, "lazyfires", 0, "separate budget for timer firings at quiescence")
	fs.BoolVar(&cfg.EnvLazy, "envlazy", false, "tickers fire only when all goroutines are blocked")
	models := fs.Bool("models", false, "collect a model per completed path")
	pstr := fs.String("params", "", "harness parameters k=v,k=v")
	fs.Parse(args)
	params := map[string]int{}
	for _, kv := range strings.Split(*pstr, ",") {
		if i := strings.IndexByte(kv, '='); i > 0 {
			var v int
			fmt.Sscanf(kv[i+1:], "%d", &v)
			params[kv[:i]] = v
		}
	}
	t0 := time.Now()
	e, err := loadEngine(*repo, []string{*pkg}, cfg)
	if err != nil {
		fmt.Fprintln(os.Stderr, "load:", err)
		os.Exit(2)
	}
	e.wantModels = *models
	e.params = params
	fmt.Fprintf(os.Stderr, "loaded in %v\n", time.Since(t0))
	fn := e.findHarness(*harness)
	if fn == nil {
		fmt.Fprintln(os.Stderr, "harness not found:", *harness)
		os.Exit(2)
	}
	res := e.Explore(fn, *harness)
	printResult(res)
}

func (e *Engine) findHarness(name string) *ssa.Function {
	for _, p := range e.prog.AllPackages() {
		if e.isRepoPkg(p) {
			if f := p.Func(name); f != nil {
				return f
			}
		}
	}
	return nil
}

func printResult(res *ExploreResult) {
	type outT struct {
		Harness     string
		Paths       int
		Ends        map[string]int
		Details     map[string]int
		Witnesses   map[string]int
		Checks      map[string]int
		Obligations int
		Discharged  int
		Unknown     int
		Violations  []Violation
		SolverQ     int
		SolverTime  string
		SolverMax   string
		Wall        string
		NFuncs      int
		Intercepts  []string
		Assumptions []string
	}
	vs := res.Violations
	if n := 5 + 1000*len(os.Getenv("VERIF_ALLVIOL")); len(vs) > n {
		vs = vs[:n]
	}
	o := outT{res.Harness, res.Paths, res.Ends, res.Details, res.Witnesses, res.Checks, res.Obligations, res.Discharged, res.ObligUnknown, vs,
		res.Solver.Queries, res.Solver.TotalTime.String(), res.Solver.MaxTime.String(), res.Wall.String(), len(res.Functions), res.Intercepts, res.Assumptions}
	b, _ := json.MarshalIndent(o, "", " ")
	fmt.Println(string(b))
	fmt.Fprintf(os.Stderr, "violations: %d\n", len(res.Violations))
}
