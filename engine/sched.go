package main

import (
	"fmt"
	"go/token"
	"go/types"

	"golang.org/x/tools/go/ssa"
)

// Goroutines of the program under test are native goroutines passing a baton:
// exactly one runs at any time, so Run state needs no locking.

type Goroutine struct {
	id      int
	wake    chan int // 1 = run, 0 = die, 2 = deadlock notice (main only)
	done    bool
	blocked bool
	ready   func() bool // when blocked: may it proceed now?
	what    string      // description of the blocking operation
	fnName  string
	envWait []*Chan // environment channels this goroutine is waiting on (tickers, timers)
	sel     *selState
	vc      vclock // vector clock (race monitor)
}

type selState struct {
	fired         bool
	caseIdx       int
	val           Value
	ok            bool
	panicOnResume bool
	vcIn          vclock // clock to acquire when resumed (race monitor)
}

type waiter struct {
	g       *Goroutine
	sel     *selState
	caseIdx int
	val     Value  // for senders
	vc      vclock // sender's clock at the time it blocked (race monitor)
}

type Chan struct {
	id         int
	capacity   int
	buf        []Value
	closed     bool
	sendq      []*waiter
	recvq      []*waiter
	elem       types.Type
	env        bool // environment-driven (ticker/timer): may deliver at any time
	envName    string
	envStopped bool
	oneShot    bool     // time.After / time.NewTimer: fires once (until Reset)
	envQuiet   bool     // never fires (harness declared timeouts out of scope)
	bufVC      []vclock // clocks travelling with buffered values (race monitor)
	recvVCs    []vclock // clock of the k-th completed receive
	nSent      int
	closeVC    vclock
}

func (r *Run) initGoroutines() {
	g := &Goroutine{id: 0, wake: make(chan int, 1), fnName: "main"}
	r.gs = []*Goroutine{g}
	r.cur = g
	r.main = g
}

func (r *Run) newChan(n int, elem types.Type) *Chan {
	r.nextChanID++
	return &Chan{id: r.nextChanID, capacity: n, elem: elem}
}

func (r *Run) spawn(fr *frame, pos token.Pos, fn Value, args []Value) {
	g := &Goroutine{id: len(r.gs), wake: make(chan int, 1)}
	switch f := fn.(type) {
	case *ssa.Function:
		g.fnName = f.String()
	case *Closure:
		g.fnName = f.Fn.String()
	}
	r.gs = append(r.gs, g)
	if r.eng.cfg.Race && fr != nil && fr.g != nil {
		g.vc = fr.g.snapshot()
		fr.g.tick()
		g.vcEnsure()
	}
	r.nativeWG.Add(1)
	go func() {
		defer r.nativeWG.Done()
		sig := <-g.wake
		if sig == 0 {
			return
		}
		r.cur = g
		defer func() {
			rec := recover()
			g.done = true
			switch p := rec.(type) {
			case nil:
				r.goroutineExit(g)
			case abortRun:
				if p.reason == "killed" {
					return
				}
				r.abortWith = &p
				r.main.wake <- 0
			case targetPanic:
				// uncaught panic in a goroutine crashes the program
				v := Violation{Kind: "panic", Label: "panic:" + p.kind, Site: p.site, Fn: p.fn, Msg: p.msg + " (in goroutine " + g.fnName + ")", Tags: append([]string(nil), r.tags...), PathDecisions: len(r.decisions)}
				r.finishViolation(&v)
				r.res.Violations = append(r.res.Violations, v)
				ab := abortRun{reason: "panic", detail: p.msg}
				r.abortWith = &ab
				r.main.wake <- 0
			default:
				ab := abortRun{reason: "engine-error", detail: fmt.Sprintf("%v\n%s", rec, engineStack())}
				r.abortWith = &ab
				r.main.wake <- 0
			}
		}()
		gfr := &frame{r: r, g: g, fn: nil}
		_ = gfr
		r.callG(g, pos, fn, args)
	}()
	if r.eng.cfg.SchedMode == 1 {
		r.yield(fr, "go")
	}
}

func (r *Run) callG(g *Goroutine, pos token.Pos, fn Value, args []Value) {
	switch f := fn.(type) {
	case *ssa.Function:
		r.callSSA(nil, pos, f, args, nil)
	case *Closure:
		r.callSSA(nil, pos, f.Fn, args, f.Env)
	case *ssa.Builtin:
		// go builtin(...) is rare
		panic(abortRun{reason: "unsupported", detail: "go builtin"})
	default:
		panic(abortRun{reason: "unsupported", detail: fmt.Sprintf("go %T", fn)})
	}
}

// runnable returns goroutines that can make progress now.
func (r *Run) runnable(except *Goroutine) []*Goroutine {
	var out []*Goroutine
	for _, g := range r.gs {
		if g.done || g == except {
			continue
		}
		if !g.blocked || (g.ready != nil && g.ready()) {
			out = append(out, g)
		}
	}
	return out
}

// transfer gives the baton to g and waits until this goroutine is resumed.
func (r *Run) transfer(self, g *Goroutine) {
	r.schedTrace = append(r.schedTrace, g.id)
	g.wake <- 1
	r.waitBaton(self)
}

func (r *Run) waitBaton(self *Goroutine) {
	sig := <-self.wake
	switch sig {
	case 0:
		if self == r.main && r.abortWith != nil {
			panic(*r.abortWith)
		}
		panic(abortRun{reason: "killed"})
	case 2:
		panic(abortRun{reason: "deadlock-notice"})
	}
	r.cur = self
}

// goroutineExit: g finished; hand the baton on.
func (r *Run) goroutineExit(g *Goroutine) {
	next := r.pickNext(nil, g, "exit")
	if next == nil {
		// nobody can run: main must be blocked => deadlock
		r.main.wake <- 2
		return
	}
	r.schedTrace = append(r.schedTrace, next.id)
	next.wake <- 1
}

// pickNext selects the next goroutine among the runnable ones (excluding
// `except`). In symbolic mode this is a decision.
func (r *Run) pickNext(fr *frame, except *Goroutine, why string) *Goroutine {
	rs := r.runnable(except)
	if len(rs) == 0 {
		// environment may fire a ticker/timer that someone waits on
		// the environment may fire a ticker/timer for any blocked goroutine, including the
		// one that has just blocked
		if g := r.envFire(fr, nil); g != nil {
			return g
		}
		return nil
	}
	if r.eng.cfg.SchedMode == 1 && len(rs) > 1 {
		// a free (non-preemptive) scheduling choice: all orders are explored up to NPBound
		// such choices per path, after that the first runnable goroutine continues
		if r.eng.cfg.NPBound > 0 && r.npChoices >= r.eng.cfg.NPBound {
			return rs[0]
		}
		r.npChoices++
		k := r.choose(fr, len(rs), "sched")
		return rs[k]
	}
	return rs[0]
}

// envFire lets the environment deliver on a ticker/timer channel some blocked
// goroutine is waiting for. Returns the goroutine made runnable.
func (r *Run) envFire(fr *frame, except *Goroutine) *Goroutine {
	// firings at quiescence have their own budget when LazyFires is set (a pending timer
	// must eventually fire; the budget only bounds programs that keep waiting for timers)
	if r.eng.cfg.LazyFires > 0 {
		if r.lazyFires >= r.eng.cfg.LazyFires {
			return nil
		}
	} else if r.envFires >= r.eng.cfg.EnvFires {
		return nil
	}
	type cand struct {
		g *Goroutine
		c *Chan
	}
	var cs []cand
	for _, g := range r.gs {
		if g.done || !g.blocked || g == except {
			continue
		}
		for _, c := range g.envWait {
			if !c.envStopped {
				cs = append(cs, cand{g, c})
			}
		}
	}
	if len(cs) == 0 {
		return nil
	}
	k := 0
	if len(cs) > 1 {
		k = r.choose(fr, len(cs), "envfire")
	}
	if r.eng.cfg.LazyFires > 0 {
		r.lazyFires++
	} else {
		r.envFires++
	}
	c := cs[k]
	// deliver a value on the env channel
	r.deliver(c.c, r.envValue(c.c))
	if c.c.oneShot {
		c.c.envStopped = true
	}
	if c.g.ready != nil && c.g.ready() {
		return c.g
	}
	return nil
}

func (r *Run) envValue(c *Chan) Value {
	return r.zero(c.elem)
}

// deliver puts v on channel c (as a sender that never blocks).
func (r *Run) deliver(c *Chan, v Value) {
	for len(c.recvq) > 0 {
		w := c.recvq[0]
		c.recvq = c.recvq[1:]
		if w.sel.fired {
			continue
		}
		w.sel.fired = true
		w.sel.caseIdx = w.caseIdx
		w.sel.val = v
		w.sel.ok = true
		return
	}
	c.buf = append(c.buf, v)
}

// block suspends the current goroutine until ready() holds.
func (r *Run) block(fr *frame, what string, ready func() bool) {
	g := fr.g
	for !ready() {
		g.blocked = true
		g.ready = ready
		g.what = what
		next := r.pickNext(fr, g, "block")
		if next == nil {
			g.blocked = false
			r.deadlock(fr, what)
		}
		if next == g {
			// the environment made this goroutine's own wait ready
			g.blocked = false
			g.ready = nil
			continue
		}
		r.transfer(g, next)
		g.blocked = false
		g.ready = nil
	}
}

func (r *Run) deadlock(fr *frame, what string) {
	if r.eng.cfg.EnvBoundOK && (r.envFires >= r.eng.cfg.EnvFires || (r.eng.cfg.LazyFires > 0 && r.lazyFires >= r.eng.cfg.LazyFires)) {
		for _, g := range r.gs {
			if g.done || !(g.blocked || g == fr.g) {
				continue
			}
			for _, c := range g.envWait {
				if !c.envStopped {
					panic(abortRun{reason: "envbound", detail: "timer firing budget spent while a goroutine waits for a timer"})
				}
			}
		}
	}
	desc := ""
	for _, g := range r.gs {
		if !g.done && (g.blocked || g == fr.g) {
			w := g.what
			if g == fr.g {
				w = what
			}
			desc += fmt.Sprintf("[g%d %s: %s] ", g.id, g.fnName, w)
		}
	}
	v := Violation{Kind: "deadlock", Label: "deadlock", Site: fr.repoSite(), Fn: fr.fn.String(), Msg: "all goroutines blocked: " + desc, Stack: fr.stack(), Tags: append([]string(nil), r.tags...), PathDecisions: len(r.decisions)}
	r.finishViolation(&v)
	r.res.Violations = append(r.res.Violations, v)
	panic(abortRun{reason: "deadlock", detail: desc})
}

// yield is a scheduling point in symbolic mode.
func (r *Run) yield(fr *frame, why string) {
	if r.eng.cfg.SchedMode != 1 {
		return
	}
	g := fr.g
	rs := r.runnable(nil)
	if len(rs) <= 1 {
		return
	}
	if r.ctxSwitches >= r.eng.cfg.CtxBound {
		return
	}
	// order: current first so that choice 0 = no preemption
	ord := []*Goroutine{g}
	for _, x := range rs {
		if x != g {
			ord = append(ord, x)
		}
	}
	k := r.choose(fr, len(ord), "yield")
	if k == 0 {
		return
	}
	r.ctxSwitches++
	g.blocked = false
	r.transfer(g, ord[k])
}

func (r *Run) killGoroutines() {
	for _, g := range r.gs {
		if g != r.main && !g.done {
			select {
			case g.wake <- 0:
			default:
			}
		}
	}
	r.nativeWG.Wait()
}

// ---- channel operations

func asChan(fr *frame, v Value) *Chan {
	c, ok := v.(*Chan)
	if !ok {
		fr.unsupported("channel op on %T", v)
	}
	return c
}

func (c *Chan) firstLive(q *[]*waiter) *waiter {
	for len(*q) > 0 {
		w := (*q)[0]
		if w.sel.fired {
			*q = (*q)[1:]
			continue
		}
		return w
	}
	return nil
}

func (r *Run) trySend(c *Chan, v Value) bool {
	race := r.eng.cfg.Race && r.cur != nil
	if w := c.firstLive(&c.recvq); w != nil {
		c.recvq = c.recvq[1:]
		w.sel.fired = true
		w.sel.caseIdx = w.caseIdx
		w.sel.val = v
		w.sel.ok = true
		if race {
			w.sel.vcIn = r.cur.snapshot()
			if c.capacity == 0 && w.g != nil {
				r.cur.join(w.g.vc) // the receive is synchronised before the completion of the send
			}
			c.nSent++
			c.recvVCs = append(c.recvVCs, joinVC(w.g.vc, w.sel.vcIn))
			r.cur.tick()
		}
		return true
	}
	if len(c.buf) < c.capacity {
		c.buf = append(c.buf, v)
		if race {
			c.bufVC = append(c.bufVC, r.cur.snapshot())
			c.nSent++
			if k := c.nSent - 1 - c.capacity; k >= 0 && k < len(c.recvVCs) {
				r.cur.join(c.recvVCs[k])
			}
			r.cur.tick()
		}
		return true
	}
	return false
}

func (r *Run) tryRecv(c *Chan) (Value, bool, bool) {
	race := r.eng.cfg.Race && r.cur != nil && !c.env
	if len(c.buf) > 0 {
		v := c.buf[0]
		c.buf = c.buf[1:]
		if race && len(c.bufVC) > 0 {
			r.cur.join(c.bufVC[0])
			c.bufVC = c.bufVC[1:]
			c.recvVCs = append(c.recvVCs, r.cur.snapshot())
			r.cur.tick()
		}
		if w := c.firstLive(&c.sendq); w != nil {
			c.sendq = c.sendq[1:]
			c.buf = append(c.buf, w.val)
			w.sel.fired = true
			w.sel.caseIdx = w.caseIdx
			if race {
				c.bufVC = append(c.bufVC, w.vc)
				c.nSent++
				if k := c.nSent - 1 - c.capacity; k >= 0 && k < len(c.recvVCs) {
					w.sel.vcIn = c.recvVCs[k]
				}
			}
		}
		return v, true, true
	}
	if w := c.firstLive(&c.sendq); w != nil {
		c.sendq = c.sendq[1:]
		w.sel.fired = true
		w.sel.caseIdx = w.caseIdx
		if race {
			w.sel.vcIn = r.cur.snapshot() // unbuffered: the receive is synchronised before the send completes
			r.cur.join(w.vc)
			c.nSent++
			c.recvVCs = append(c.recvVCs, r.cur.snapshot())
			r.cur.tick()
		}
		return w.val, true, true
	}
	if c.closed {
		if race && c.closeVC != nil {
			r.cur.join(c.closeVC)
		}
		return r.zero(c.elem), false, true
	}
	return nil, false, false
}

func (r *Run) chanSend(fr *frame, cv Value, v Value) {
	c := asChan(fr, cv)
	v = copyVal(v)
	r.yield(fr, "send")
	if c == nil {
		r.block(fr, "send on nil channel", func() bool { return false })
	}
	if c.closed {
		panic(targetPanic{v: Iface{T: types.Typ[types.String], V: "send on closed channel"}, msg: "send on closed channel", kind: "chan", site: fr.repoSite(), fn: fr.fn.String()})
	}
	if r.trySend(c, v) {
		return
	}
	sel := &selState{}
	wt := &waiter{g: fr.g, sel: sel, val: v}
	if r.eng.cfg.Race {
		wt.vc = fr.g.snapshot()
		fr.g.tick()
	}
	c.sendq = append(c.sendq, wt)
	r.block(fr, fmt.Sprintf("send on chan#%d", c.id), func() bool { return sel.fired })
	if r.eng.cfg.Race && sel.vcIn != nil {
		fr.g.join(sel.vcIn)
	}
	if sel.panicOnResume {
		panic(targetPanic{v: Iface{T: types.Typ[types.String], V: "send on closed channel"}, msg: "send on closed channel", kind: "chan", site: fr.repoSite(), fn: fr.fn.String()})
	}
}

func (r *Run) chanRecv(fr *frame, cv Value, commaOk bool, elem types.Type) Value {
	c := asChan(fr, cv)
	r.yield(fr, "recv")
	if c == nil {
		r.block(fr, "receive on nil channel", func() bool { return false })
	}
	var v Value
	var ok bool
	if c.env && len(c.buf) == 0 && !c.envStopped {
		// environment channel: may have fired already (decision)
		if !r.eng.cfg.EnvLazy && r.envFires < r.eng.cfg.EnvFires && r.choose(fr, 2, "envnow") == 1 {
			r.envFires++
			c.buf = append(c.buf, r.envValue(c))
			if c.oneShot {
				c.envStopped = true
			}
		}
	}
	if x, k, done := r.tryRecv(c); done {
		v, ok = x, k
	} else {
		sel := &selState{}
		c.recvq = append(c.recvq, &waiter{g: fr.g, sel: sel})
		if c.env {
			fr.g.envWait = []*Chan{c}
		}
		r.block(fr, fmt.Sprintf("receive on chan#%d%s", c.id, c.envName), func() bool { return sel.fired })
		fr.g.envWait = nil
		if r.eng.cfg.Race && sel.vcIn != nil {
			fr.g.join(sel.vcIn)
			fr.g.tick()
		}
		v, ok = sel.val, sel.ok
		if v == nil {
			v = r.zero(c.elem)
		}
	}
	if commaOk {
		return Tuple{v, r.tt.Bool(ok)}
	}
	return v
}

func (r *Run) chanClose(fr *frame, cv Value) {
	c := asChan(fr, cv)
	r.yield(fr, "close")
	if c == nil {
		panic(targetPanic{v: Iface{T: types.Typ[types.String], V: "close of nil channel"}, msg: "close of nil channel", kind: "chan", site: fr.repoSite(), fn: fr.fn.String()})
	}
	if c.closed {
		panic(targetPanic{v: Iface{T: types.Typ[types.String], V: "close of closed channel"}, msg: "close of closed channel", kind: "chan", site: fr.repoSite(), fn: fr.fn.String()})
	}
	c.closed = true
	if r.eng.cfg.Race {
		c.closeVC = fr.g.snapshot()
		fr.g.tick()
	}
	for _, w := range c.recvq {
		if w.sel.fired {
			continue
		}
		w.sel.fired = true
		w.sel.caseIdx = w.caseIdx
		w.sel.val = nil
		w.sel.ok = false
		w.sel.vcIn = c.closeVC
	}
	c.recvq = nil
	for _, w := range c.sendq {
		if w.sel.fired {
			continue
		}
		w.sel.fired = true
		w.sel.caseIdx = w.caseIdx
		w.sel.panicOnResume = true
	}
	c.sendq = nil
}

func (r *Run) selectStmt(fr *frame, instr *ssa.Select) Value {
	r.yield(fr, "select")
	type st struct {
		c    *Chan
		send bool
		val  Value
	}
	states := make([]st, len(instr.States))
	for i, s := range instr.States {
		c := asChan(fr, fr.get(s.Chan))
		states[i] = st{c: c, send: s.Dir == types.SendOnly}
		if states[i].send {
			states[i].val = copyVal(fr.get(s.Send))
		}
	}
	// result tuple: (index, recvOk, recv_0 ... recv_n-1)
	mkResult := func(idx int, ok bool, val Value) Value {
		res := Tuple{r.tt.Const(64, uint64(int64(idx))), r.tt.Bool(ok)}
		for i, s := range instr.States {
			if s.Dir == types.RecvOnly {
				et := s.Chan.Type().Underlying().(*types.Chan).Elem()
				if i == idx && val != nil {
					res = append(res, val)
				} else {
					res = append(res, r.zero(et))
				}
			}
		}
		return res
	}
	// environment channels may have fired
	for i := range states {
		c := states[i].c
		if c != nil && c.env && !states[i].send && len(c.buf) == 0 && !c.envStopped {
			if !r.eng.cfg.EnvLazy && r.envFires < r.eng.cfg.EnvFires && r.choose(fr, 2, "envnow") == 1 {
				r.envFires++
				c.buf = append(c.buf, r.envValue(c))
				if c.oneShot {
					c.envStopped = true
				}
			}
		}
	}
	// which cases are ready now?
	var readyIdx []int
	for i, s := range states {
		if s.c == nil {
			continue
		}
		if s.send {
			if s.c.closed || s.c.firstLive(&s.c.recvq) != nil || len(s.c.buf) < s.c.capacity {
				readyIdx = append(readyIdx, i)
			}
		} else {
			if len(s.c.buf) > 0 || s.c.firstLive(&s.c.sendq) != nil || s.c.closed {
				readyIdx = append(readyIdx, i)
			}
		}
	}
	doCase := func(i int) Value {
		s := states[i]
		if s.send {
			if s.c.closed {
				panic(targetPanic{v: Iface{T: types.Typ[types.String], V: "send on closed channel"}, msg: "send on closed channel", kind: "chan", site: fr.repoSite(), fn: fr.fn.String()})
			}
			if !r.trySend(s.c, s.val) {
				panic("select: send not ready")
			}
			return mkResult(i, false, nil)
		}
		v, ok, done := r.tryRecv(s.c)
		if !done {
			panic("select: recv not ready")
		}
		return mkResult(i, ok, v)
	}
	if len(readyIdx) > 0 {
		k := 0
		if len(readyIdx) > 1 && (r.eng.cfg.SchedMode == 1 || r.eng.cfg.SelectChoice) {
			k = r.choose(fr, len(readyIdx), "select")
		} else if len(readyIdx) > 1 && r.eng.cfg.SelectLast {
			k = len(readyIdx) - 1 // the other extreme of Go's random choice among ready cases
		}
		return doCase(readyIdx[k])
	}
	if !instr.Blocking {
		return mkResult(-1, false, nil)
	}
	sel := &selState{}
	var envs []*Chan
	for i, s := range states {
		if s.c == nil {
			continue
		}
		w := &waiter{g: fr.g, sel: sel, caseIdx: i, val: s.val}
		if r.eng.cfg.Race && s.send {
			w.vc = fr.g.snapshot()
		}
		if s.send {
			s.c.sendq = append(s.c.sendq, w)
		} else {
			s.c.recvq = append(s.c.recvq, w)
			if s.c.env {
				envs = append(envs, s.c)
			}
		}
	}
	fr.g.envWait = envs
	if r.eng.cfg.Race {
		fr.g.tick()
	}
	r.block(fr, "select", func() bool { return sel.fired })
	fr.g.envWait = nil
	if r.eng.cfg.Race && sel.vcIn != nil {
		fr.g.join(sel.vcIn)
		fr.g.tick()
	}
	if sel.panicOnResume {
		panic(targetPanic{v: Iface{T: types.Typ[types.String], V: "send on closed channel"}, msg: "send on closed channel", kind: "chan", site: fr.repoSite(), fn: fr.fn.String()})
	}
	return mkResult(sel.caseIdx, sel.ok, sel.val)
}

// ---- sync.Mutex / WaitGroup / Once as engine objects keyed by address

type syncState struct {
	locked map[*Value]bool
	rlocks map[*Value]int
	wg     map[*Value]int64
	once   map[*Value]bool
}
