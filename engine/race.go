package main

// Happens-before race monitor (vector clocks, DJIT+/FastTrack style) over the engine's
// heap cells. Enabled per harness (cfg.Race). Edges are those of the Go memory model for
// the modelled primitives: go statement; channel send -> receive; k-th receive -> (k+cap)-th
// send completion (both directions for unbuffered channels); close -> receive of closed;
// Unlock -> Lock; Done -> Wait; Once; atomics as release/acquire on their address.

import (
	"fmt"
	"sort"
)

type vclock []int32

func (g *Goroutine) vcAt(i int) int32 {
	if i < len(g.vc) {
		return g.vc[i]
	}
	return 0
}

func (g *Goroutine) vcEnsure() {
	for len(g.vc) <= g.id {
		g.vc = append(g.vc, 0)
	}
	if g.vc[g.id] == 0 {
		g.vc[g.id] = 1
	}
}

func (g *Goroutine) tick() {
	g.vcEnsure()
	g.vc[g.id]++
}

func (g *Goroutine) snapshot() vclock {
	g.vcEnsure()
	return append(vclock(nil), g.vc...)
}

func (g *Goroutine) join(o vclock) {
	g.vcEnsure()
	for len(g.vc) < len(o) {
		g.vc = append(g.vc, 0)
	}
	for i, c := range o {
		if c > g.vc[i] {
			g.vc[i] = c
		}
	}
}

func joinVC(a, b vclock) vclock {
	out := append(vclock(nil), a...)
	for len(out) < len(b) {
		out = append(out, 0)
	}
	for i, c := range b {
		if c > out[i] {
			out[i] = c
		}
	}
	return out
}

type shadowCell struct {
	wG    int
	wC    int32
	wSite string
	reads map[int]int32
	rSite map[int]string
}

// raceAccess records an access of the current goroutine to the cell at p (and, for
// aggregates, to the cells nested inside it, which field/index addresses alias).
func (r *Run) raceAccess(fr *frame, p *Value, write bool) {
	if !r.eng.cfg.Race || p == nil || fr == nil || fr.g == nil {
		return
	}
	r.raceTouch(fr, p, write)
	r.raceNested(fr, *p, write, 0)
}

func (r *Run) raceNested(fr *frame, v Value, write bool, depth int) {
	if depth > 3 {
		return
	}
	switch x := v.(type) {
	case Struct:
		if len(x) > 64 {
			return
		}
		for i := range x {
			r.raceTouch(fr, &x[i], write)
			r.raceNested(fr, x[i], write, depth+1)
		}
	case Array:
		if len(x) > 64 {
			return
		}
		for i := range x {
			r.raceTouch(fr, &x[i], write)
			r.raceNested(fr, x[i], write, depth+1)
		}
	}
}

func (r *Run) raceTouch(fr *frame, key interface{}, write bool) {
	g := fr.g
	g.vcEnsure()
	if r.shadow == nil {
		r.shadow = map[interface{}]*shadowCell{}
	}
	s := r.shadow[key]
	if s == nil {
		s = &shadowCell{wG: -1}
		r.shadow[key] = s
	}
	site := ""
	conflict := func(kind string, og int, osite string) {
		if site == "" {
			site = fr.repoSite()
		}
		r.reportRace(fr, kind, site, osite, og)
	}
	if s.wG >= 0 && s.wG != g.id && s.wC > g.vcAt(s.wG) {
		if write {
			conflict("write-write", s.wG, s.wSite)
		} else {
			conflict("write-read", s.wG, s.wSite)
		}
	}
	if write {
		for rg, rc := range s.reads {
			if rg != g.id && rc > g.vcAt(rg) {
				conflict("read-write", rg, s.rSite[rg])
			}
		}
		if site == "" {
			site = fr.repoSite()
		}
		s.wG, s.wC, s.wSite = g.id, g.vc[g.id], site
		s.reads, s.rSite = nil, nil
	} else {
		if s.reads == nil {
			s.reads = map[int]int32{}
			s.rSite = map[int]string{}
		}
		if _, seen := s.reads[g.id]; !seen || s.reads[g.id] != g.vc[g.id] {
			if site == "" {
				site = fr.repoSite()
			}
			s.rSite[g.id] = site
		}
		s.reads[g.id] = g.vc[g.id]
	}
}

func (r *Run) reportRace(fr *frame, kind, site, osite string, og int) {
	sites := []string{site, osite}
	sort.Strings(sites)
	label := "data race between " + sites[0] + " and " + sites[1]
	if r.racesSeen == nil {
		r.racesSeen = map[string]bool{}
	}
	if r.racesSeen[label] {
		return
	}
	r.racesSeen[label] = true
	other := "?"
	if og >= 0 && og < len(r.gs) {
		other = r.gs[og].fnName
	}
	v := Violation{Kind: "race", Label: label, Site: site, Fn: fr.fn.String(),
		Msg:   fmt.Sprintf("%s race: %s (goroutine %s) vs %s (goroutine %s): no happens-before edge between the two accesses", kind, site, fr.g.fnName, osite, other),
		Stack: fr.stack(), Tags: append([]string(nil), r.tags...), PathDecisions: len(r.decisions)}
	r.finishViolation(&v)
	r.res.Violations = append(r.res.Violations, v)
}
