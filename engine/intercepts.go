package main

import (
	"fmt"
	"go/token"
	"go/types"
	"math"
	"math/big"
	"strings"

	"golang.org/x/tools/go/ssa"
)

type interceptFn func(r *Run, fr *frame, args []Value) Value

var intercepts = map[string]interceptFn{}

func reg(fn interceptFn, names ...string) {
	for _, n := range names {
		intercepts[n] = fn
	}
}

func (e *Engine) intercept(fn *ssa.Function) interceptFn {
	e.icMu.Lock()
	defer e.icMu.Unlock()
	if ic, ok := e.icCache[fn]; ok {
		return ic
	}
	var ic interceptFn
	name := fn.String()
	if fn.Synthetic == "package initializer" && !e.isRepoPkg(fn.Pkg) {
		ic = initIC
	} else if f, ok := intercepts[name]; ok {
		ic = f
	} else if fn.Pkg != nil && e.isRepoPkg(fn.Pkg) && fn.Parent() == nil && fn.Signature.Recv() == nil {
		if f, ok := harnessAPI[fn.Name()]; ok {
			ic = f
		}
	}
	if ic == nil {
		// prefix rules
		for _, pr := range prefixNoop {
			if strings.HasPrefix(name, pr) {
				ic = noop
				break
			}
		}
	}
	e.icCache[fn] = ic
	return ic
}

func init() {
	// binary.Write of an EMPTY slice leaves its fast path and goes through reflection (which
	// the engine does not execute): it writes nothing. Everything else runs the real body.
	reg(func(r *Run, fr *frame, args []Value) Value {
		if iv, ok := args[2].(Iface); ok {
			if sl, ok := iv.V.(Slice); ok && len(sl) == 0 {
				return Iface{}
			}
		}
		return useRealBody{}
	}, "encoding/binary.Write")
}

var prefixNoop = []string{
	"log.", "(*log.Logger).",
	"github.com/davecgh/go-spew/spew.",
}

func noop(r *Run, fr *frame, args []Value) Value {
	sig := fr.fn.Signature
	switch sig.Results().Len() {
	case 0:
		return nil
	}
	return r.zero(sig.Results())
}

func argStr(fr *frame, v Value) string {
	s, ok := v.(string)
	if !ok {
		fr.unsupported("harness API: string argument must be concrete, got %T", v)
	}
	return s
}

var harnessAPI = map[string]interceptFn{}

func symOf(s Sort) interceptFn {
	return func(r *Run, fr *frame, args []Value) Value {
		return r.symVar(argStr(fr, args[0]), s)
	}
}

func init() {
	harnessAPI["vSymBool"] = symOf(SBool)
	harnessAPI["vSymU8"] = symOf(8)
	harnessAPI["vSymI8"] = symOf(8)
	harnessAPI["vSymU16"] = symOf(16)
	harnessAPI["vSymI16"] = symOf(16)
	harnessAPI["vSymU32"] = symOf(32)
	harnessAPI["vSymI32"] = symOf(32)
	harnessAPI["vSymU64"] = symOf(64)
	harnessAPI["vSymI64"] = symOf(64)
	harnessAPI["vSymInt"] = symOf(64)
	harnessAPI["vRange"] = func(r *Run, fr *frame, args []Value) Value {
		name := argStr(fr, args[0])
		lo := r.concretizeInt(fr, args[1].(*Term), true)
		hi := r.concretizeInt(fr, args[2].(*Term), true)
		if hi < lo {
			panic(abortRun{reason: "assume"})
		}
		k := r.choose(fr, int(hi-lo+1), "range:"+name)
		t := r.tt.Const(64, uint64(lo+int64(k)))
		r.inputs = append(r.inputs, symInput{name, t})
		r.inputSeen[name] = true
		return t
	}
	harnessAPI["vAssume"] = func(r *Run, fr *frame, args []Value) Value {
		r.assume(fr, args[0].(*Term))
		return nil
	}
	harnessAPI["vCheck"] = func(r *Run, fr *frame, args []Value) Value {
		r.check(fr, args[0].(*Term), argStr(fr, args[1]))
		return nil
	}
	harnessAPI["vWitness"] = func(r *Run, fr *frame, args []Value) Value {
		r.res.Witnesses = append(r.res.Witnesses, argStr(fr, args[0]))
		return nil
	}
	harnessAPI["vObserve"] = func(r *Run, fr *frame, args []Value) Value {
		r.res.Observes = append(r.res.Observes, observation{argStr(fr, args[0]), args[1].(*Term)})
		return nil
	}
	harnessAPI["vTag"] = func(r *Run, fr *frame, args []Value) Value {
		r.tags = append(r.tags, argStr(fr, args[0]))
		return nil
	}
	harnessAPI["vConcrete"] = func(r *Run, fr *frame, args []Value) Value {
		t := args[0].(*Term)
		return r.tt.Const(t.sort, r.concretize(fr, t))
	}
	harnessAPI["vSymbolic"] = func(r *Run, fr *frame, args []Value) Value {
		return r.tt.tru
	}
	harnessAPI["vSymReal"] = func(r *Run, fr *frame, args []Value) Value {
		name := argStr(fr, args[0])
		t := r.tt.Var(SReal, name)
		return Float{t: t}
	}
	harnessAPI["vParam"] = func(r *Run, fr *frame, args []Value) Value {
		name := argStr(fr, args[0])
		if v, ok := r.eng.params[name]; ok {
			return r.tt.Const(64, uint64(int64(v)))
		}
		return args[1]
	}
	harnessAPI["vB2I"] = func(r *Run, fr *frame, args []Value) Value {
		return r.tt.Ite(args[0].(*Term), r.tt.Const(64, 1), r.tt.Const(64, 0))
	}
	harnessAPI["vClockConcrete"] = func(r *Run, fr *frame, args []Value) Value {
		r.clockConcrete = true
		r.noteAssumption("wall clock (time.Now) is a concrete counter in this harness: it only feeds logging/flush timing")
		return nil
	}
	harnessAPI["vSymU16R"] = func(r *Run, fr *frame, args []Value) Value {
		t := r.symVar(argStr(fr, args[0]), 16)
		if r.realBacked == nil {
			r.realBacked = map[string]bool{}
		}
		r.realBacked[t.name] = true
		r.noteAssumption("real-backed samples (vSymU16R): the 16-bit value is only read through int->float conversion, where it is a real variable over the type's interval (integrality not used: the checked identities are polynomial)")
		return t
	}
	harnessAPI["vSymI8R"] = func(r *Run, fr *frame, args []Value) Value {
		t := r.symVar(argStr(fr, args[0]), 8)
		if r.realBacked == nil {
			r.realBacked = map[string]bool{}
		}
		r.realBacked[t.name] = true
		return t
	}
	// concrete operands were computed in float64, like the native run: compare them as the
	// native API does (up to rounding); symbolic operands are exact reals
	tol := func(a, b float64) float64 {
		m := math.Abs(a)
		if math.Abs(b) > m {
			m = math.Abs(b)
		}
		return 1e-9 * (1 + m)
	}
	harnessAPI["vRealEq"] = func(r *Run, fr *frame, args []Value) Value {
		a, b := args[0].(Float), args[1].(Float)
		if a.concrete() && b.concrete() {
			return r.tt.Bool(math.Abs(a.v-b.v) <= tol(a.v, b.v))
		}
		return r.floatCmp(fr, token.EQL, a, b)
	}
	harnessAPI["vRealLe"] = func(r *Run, fr *frame, args []Value) Value {
		a, b := args[0].(Float), args[1].(Float)
		if a.concrete() && b.concrete() {
			return r.tt.Bool(a.v <= b.v+tol(a.v, b.v))
		}
		return r.floatCmp(fr, token.LEQ, a, b)
	}
	harnessAPI["vSettle"] = func(r *Run, fr *frame, args []Value) Value {
		g := fr.g
		r.block(fr, "settle", func() bool { return len(r.runnable(g)) == 0 })
		return nil
	}
	harnessAPI["vWatchdog"] = func(r *Run, fr *frame, args []Value) Value { return nil }
	harnessAPI["vLiveGoroutines"] = func(r *Run, fr *frame, args []Value) Value {
		n := 0
		for _, g := range r.gs {
			if !g.done && g != fr.g {
				n++
			}
		}
		return r.tt.Const(64, uint64(n))
	}
	harnessAPI["vAdvance"] = func(r *Run, fr *frame, args []Value) Value {
		g := fr.g
		r.envFire(fr, g)
		r.block(fr, "advance", func() bool { return len(r.runnable(g)) == 0 })
		return nil
	}
	harnessAPI["vTimersQuiet"] = func(r *Run, fr *frame, args []Value) Value {
		r.timersQuiet = true
		r.noteAssumption("one-shot timers (time.NewTimer / time.After: time-outs) never fire in this harness; tickers do")
		return nil
	}
	harnessAPI["vStubFunc"] = func(r *Run, fr *frame, args []Value) Value {
		if r.stubFuncs == nil {
			r.stubFuncs = map[string]Value{}
		}
		iv := args[1].(Iface)
		r.stubFuncs[argStr(fr, args[0])] = iv.V
		r.noteAssumption("replaced by a harness model: " + argStr(fr, args[0]))
		return nil
	}
	harnessAPI["vChoose"] = func(r *Run, fr *frame, args []Value) Value {
		name := argStr(fr, args[0])
		n := int(r.concretizeInt(fr, args[1].(*Term), true))
		k := r.choose(fr, n, "choose:"+name)
		t := r.tt.Const(64, uint64(k))
		if r.inputSeen[name] {
			j := 2
			for r.inputSeen[fmt.Sprintf("%s#%d", name, j)] {
				j++
			}
			name = fmt.Sprintf("%s#%d", name, j)
		}
		r.inputSeen[name] = true
		r.inputs = append(r.inputs, symInput{name, t})
		return t
	}
	harnessAPI["vStub"] = func(r *Run, fr *frame, args []Value) Value {
		if r.stubs == nil {
			r.stubs = map[string]bool{}
		}
		r.stubs[argStr(fr, args[0])] = true
		r.noteAssumption("summarised as a no-op by the harness: " + argStr(fr, args[0]))
		return nil
	}
	harnessAPI["vOr"] = func(r *Run, fr *frame, args []Value) Value {
		return r.tt.Or(args[0].(*Term), args[1].(*Term))
	}
	harnessAPI["vAnd"] = func(r *Run, fr *frame, args []Value) Value {
		return r.tt.And(args[0].(*Term), args[1].(*Term))
	}
	harnessAPI["vYield"] = func(r *Run, fr *frame, args []Value) Value {
		r.yield(fr, "vYield")
		return nil
	}

	// ---- fmt / errors / log
	reg(func(r *Run, fr *frame, args []Value) Value {
		return r.sprintf(fr, args[0], args[1])
	}, "fmt.Sprintf")
	reg(func(r *Run, fr *frame, args []Value) Value {
		return r.sprint(fr, args[0])
	}, "fmt.Sprint", "fmt.Sprintln")
	reg(func(r *Run, fr *frame, args []Value) Value {
		msg := r.sprintf(fr, args[0], args[1]).(string)
		return r.newError(fr, msg)
	}, "fmt.Errorf")
	reg(func(r *Run, fr *frame, args []Value) Value {
		return Tuple{r.tt.Const(64, 0), Iface{}}
	}, "fmt.Printf", "fmt.Println", "fmt.Print", "fmt.Fprintf", "fmt.Fprintln", "fmt.Fprint")

	// ---- math
	m1 := func(f func(float64) float64) interceptFn {
		return func(r *Run, fr *frame, args []Value) Value {
			x := args[0].(Float)
			if x.concrete() {
				return Float{v: f(x.v)}
			}
			return Float{unk: true}
		}
	}
	reg(m1(math.Abs), "math.Abs")
	reg(m1(math.Ceil), "math.Ceil")
	reg(m1(math.Floor), "math.Floor")
	reg(m1(math.Round), "math.Round")
	reg(m1(math.Trunc), "math.Trunc")
	reg(m1(math.Log), "math.Log")
	reg(m1(math.Exp), "math.Exp")
	reg(m1(math.Log2), "math.Log2")
	reg(m1(math.Log10), "math.Log10")
	reg(func(r *Run, fr *frame, args []Value) Value {
		x := args[0].(Float)
		if x.concrete() {
			return Float{v: math.Sqrt(x.v)}
		}
		if x.t != nil {
			y := r.tt.UF("sqrt", SReal, x.t, nil)
			if r.eng.cfg.RealFloats {
				// idealised square root: for x >= 0, y >= 0 and y*y = x (x < 0 would be NaN: left unconstrained)
				zero := r.tt.RConst(new(big.Rat))
				nonneg := r.tt.RBin(OpRLe, zero, x.t)
				ax := r.tt.And(r.tt.RBin(OpRLe, zero, y), r.tt.Eq(r.tt.RBin(OpRMul, y, y), x.t))
				// kept out of the path condition: only assertion queries need it, and feasibility
				// queries stay linear without it (dropping it there only over-approximates)
				r.lazyAxioms = append(r.lazyAxioms, r.tt.Or(r.tt.Not(nonneg), ax))
				r.lazyAxiomKeys = append(r.lazyAxiomKeys, y)
				r.noteAssumption("math.Sqrt is the exact real square root (y >= 0, y*y = x for x >= 0)")
			}
			return Float{t: y}
		}
		return Float{unk: true}
	}, "math.Sqrt", "math.sqrt")
	reg(func(r *Run, fr *frame, args []Value) Value {
		x, y := args[0].(Float), args[1].(Float)
		if x.concrete() && y.concrete() {
			return Float{v: math.Copysign(x.v, y.v)}
		}
		if x.concrete() && y.t != nil {
			// sign of a real-valued y (negative zero and NaN do not exist in the real model)
			a := new(big.Rat).SetFloat64(math.Abs(x.v))
			if a != nil {
				na := new(big.Rat).Neg(a)
				zero := r.tt.RConst(new(big.Rat))
				return Float{t: r.tt.Ite(r.tt.RBin(OpRLt, y.t, zero), r.tt.RConst(na), r.tt.RConst(a))}
			}
		}
		return Float{unk: true}
	}, "math.Copysign")
	reg(func(r *Run, fr *frame, args []Value) Value {
		x, y := args[0].(Float), args[1].(Float)
		if x.concrete() && y.concrete() {
			return Float{v: math.Pow(x.v, y.v)}
		}
		return Float{unk: true}
	}, "math.Pow")
	reg(func(r *Run, fr *frame, args []Value) Value {
		x, y := args[0].(Float), args[1].(Float)
		if x.concrete() && y.concrete() {
			return Float{v: math.Mod(x.v, y.v)}
		}
		return Float{unk: true}
	}, "math.Mod")
	reg(func(r *Run, fr *frame, args []Value) Value {
		x, y := args[0].(Float), args[1].(Float)
		if x.concrete() && y.concrete() {
			return Float{v: math.Max(x.v, y.v)}
		}
		return Float{unk: true}
	}, "math.Max")
	reg(func(r *Run, fr *frame, args []Value) Value {
		x, y := args[0].(Float), args[1].(Float)
		if x.concrete() && y.concrete() {
			return Float{v: math.Min(x.v, y.v)}
		}
		return Float{unk: true}
	}, "math.Min")
	reg(func(r *Run, fr *frame, args []Value) Value { return Float{v: math.NaN()} }, "math.NaN")
	reg(func(r *Run, fr *frame, args []Value) Value {
		s := r.concretizeInt(fr, args[0].(*Term), true)
		return Float{v: math.Inf(int(s))}
	}, "math.Inf")
	reg(func(r *Run, fr *frame, args []Value) Value {
		x := args[0].(Float)
		if x.concrete() {
			return r.tt.Bool(math.IsNaN(x.v))
		}
		if x.t != nil {
			return r.tt.fls
		}
		return r.freshBool("isnan")
	}, "math.IsNaN")
	reg(func(r *Run, fr *frame, args []Value) Value {
		x := args[0].(Float)
		s := r.concretizeInt(fr, args[1].(*Term), true)
		if x.concrete() {
			return r.tt.Bool(math.IsInf(x.v, int(s)))
		}
		if x.t != nil {
			return r.tt.fls
		}
		return r.freshBool("isinf")
	}, "math.IsInf")
	reg(func(r *Run, fr *frame, args []Value) Value { return r.floatBits(args[0].(Float), 64) }, "math.Float64bits")
	reg(func(r *Run, fr *frame, args []Value) Value { return r.floatBits(args[0].(Float), 32) }, "math.Float32bits")
	reg(func(r *Run, fr *frame, args []Value) Value { return r.floatFromBits(args[0].(*Term), 64) }, "math.Float64frombits")
	reg(func(r *Run, fr *frame, args []Value) Value { return r.floatFromBits(args[0].(*Term), 32) }, "math.Float32frombits")
	reg(func(r *Run, fr *frame, args []Value) Value {
		t := args[0].(*Term)
		if !t.IsConst() {
			// the value is only ever a float operand here; keep it opaque rather than forking 2^k ways
			return Float{unk: true}
		}
		return Float{v: math.Pow10(int(signExt(t.val, t.sort)))}
	}, "math.Pow10")

	// ---- runtime / misc
	reg(noop, "runtime.SetFinalizer", "runtime.GC", "runtime.Gosched", "runtime.KeepAlive", "os.Exit")
	reg(func(r *Run, fr *frame, args []Value) Value { return r.tt.Const(64, 16) }, "runtime.NumCPU", "runtime.GOMAXPROCS")

	// ---- bytes / strings helpers implemented in assembly
	reg(func(r *Run, fr *frame, args []Value) Value {
		a, b := args[0].(Slice), args[1].(Slice)
		if len(a) != len(b) {
			return r.tt.fls
		}
		res := r.tt.tru
		for i := range a {
			res = r.tt.And(res, r.tt.Eq(a[i].(*Term), b[i].(*Term)))
		}
		return res
	}, "bytes.Equal", "internal/bytealg.Equal")
	reg(func(r *Run, fr *frame, args []Value) Value {
		s := args[0].(string)
		c := byte(r.concretizeInt(fr, args[1].(*Term), false))
		return r.tt.Const(64, uint64(int64(strings.IndexByte(s, c))))
	}, "internal/bytealg.IndexByteString", "strings.IndexByte")
	reg(func(r *Run, fr *frame, args []Value) Value {
		return r.tt.Const(64, uint64(int64(strings.Index(args[0].(string), args[1].(string)))))
	}, "internal/bytealg.IndexString", "strings.Index")
	reg(func(r *Run, fr *frame, args []Value) Value {
		return r.tt.Const(64, uint64(int64(strings.Count(args[0].(string), args[1].(string)))))
	}, "strings.Count")
	reg(func(r *Run, fr *frame, args []Value) Value {
		b := args[0].(Slice)
		c := args[1].(*Term)
		// first index i with b[i]==c, else -1 (as term)
		res := r.tt.Const(64, ^uint64(0))
		for i := len(b) - 1; i >= 0; i-- {
			res = r.tt.Ite(r.tt.Eq(b[i].(*Term), c), r.tt.Const(64, uint64(i)), res)
		}
		return res
	}, "internal/bytealg.IndexByte", "bytes.IndexByte")
}

// newError creates an error value by running the real errors.New.
func (r *Run) newError(fr *frame, msg string) Value {
	ep := r.eng.prog.ImportedPackage("errors")
	if ep == nil {
		fr.unsupported("errors package not loaded")
	}
	return r.callSSA(fr, 0, ep.Func("New"), []Value{msg}, nil)
}

// goValue converts an engine value to a native Go value for formatting.
func (r *Run) goValue(v Value, t types.Type) interface{} {
	switch x := v.(type) {
	case *Term:
		if !x.IsConst() {
			return "<sym>"
		}
		if x.sort == SBool {
			return x.val != 0
		}
		if t != nil && isSigned(t) {
			return signExt(x.val, x.sort)
		}
		return x.val
	case Float:
		if x.concrete() {
			return x.v
		}
		return "<float?>"
	case string:
		return x
	case Iface:
		if x.T == nil {
			return nil
		}
		// error values: try to find message
		if p, ok := x.V.(*Value); ok && p != nil {
			if st, ok := (*p).(Struct); ok && len(st) == 1 {
				if s, ok := st[0].(string); ok {
					return s
				}
			}
		}
		return r.goValue(x.V, x.T)
	case *Value:
		if x == nil {
			return nil
		}
		return fmt.Sprintf("&%v", r.goValue(*x, nil))
	case Slice:
		out := make([]interface{}, 0, len(x))
		for i, e := range x {
			if i > 32 {
				break
			}
			var et types.Type
			if t != nil {
				if st, ok := t.Underlying().(*types.Slice); ok {
					et = st.Elem()
				}
			}
			out = append(out, r.goValue(e, et))
		}
		return out
	case Struct:
		out := make([]interface{}, 0, len(x))
		for i, e := range x {
			var ft types.Type
			if t != nil {
				if st, ok := t.Underlying().(*types.Struct); ok {
					ft = st.Field(i).Type()
				}
			}
			out = append(out, r.goValue(e, ft))
		}
		return out
	}
	return fmt.Sprintf("<%T>", v)
}

func (r *Run) sprintf(fr *frame, format Value, args Value) Value {
	f := format.(string)
	var gos []interface{}
	if as, ok := args.(Slice); ok {
		for _, a := range as {
			gos = append(gos, r.goValue(a, nil))
		}
	}
	// verbs may not match placeholder strings; tolerate
	s := fmt.Sprintf(f, gos...)
	return s
}

func (r *Run) sprint(fr *frame, args Value) Value {
	var gos []interface{}
	if as, ok := args.(Slice); ok {
		for _, a := range as {
			gos = append(gos, r.goValue(a, nil))
		}
	}
	return fmt.Sprint(gos...)
}

func init() {
	reg(func(r *Run, fr *frame, args []Value) Value {
		iv := args[0].(Iface)
		if iv.T == nil {
			return r.tt.Const(64, ^uint64(0))
		}
		switch v := iv.V.(type) {
		case Slice:
			if st, ok := iv.T.Underlying().(*types.Slice); ok {
				return r.tt.Const(64, uint64(int64(len(v))*r.typeSize(st.Elem())))
			}
		}
		return r.tt.Const(64, uint64(r.typeSize(iv.T)))
	}, "encoding/binary.Size")
}

// ---- viper: a ghost key -> value store
func init() {
	reg(func(r *Run, fr *frame, args []Value) Value {
		if r.viper == nil {
			r.viper = map[string]Value{}
		}
		r.viper[strings.ToLower(args[0].(string))] = args[1] // viper keys are case-insensitive
		return nil
	}, "github.com/spf13/viper.Set")
	reg(func(r *Run, fr *frame, args []Value) Value {
		if v, ok := r.viper[strings.ToLower(args[0].(string))]; ok {
			return v
		}
		return Iface{}
	}, "github.com/spf13/viper.Get")
	reg(func(r *Run, fr *frame, args []Value) Value {
		_, ok := r.viper[strings.ToLower(args[0].(string))]
		return r.tt.Bool(ok)
	}, "github.com/spf13/viper.IsSet")
	reg(func(r *Run, fr *frame, args []Value) Value {
		key := strings.ToLower(args[0].(string))
		dst, _ := args[1].(Iface)
		if v, ok := r.viper[key]; ok {
			if iv, ok := v.(Iface); ok && iv.T != nil && dst.T != nil {
				if pt, ok := dst.T.Underlying().(*types.Pointer); ok && types.Identical(pt.Elem(), iv.T) {
					if p, ok := dst.V.(*Value); ok && p != nil {
						r.storeInto(pt.Elem(), p, deepCopy(iv.V))
					}
				}
			}
		}
		return Iface{}
	}, "github.com/spf13/viper.UnmarshalKey")
	reg(func(r *Run, fr *frame, args []Value) Value {
		if r.viperFile != "" {
			return r.viperFile
		}
		return "/home/verif/.dastard/config.yaml"
	}, "github.com/spf13/viper.ConfigFileUsed")
	reg(func(r *Run, fr *frame, args []Value) Value {
		r.viperFile = args[0].(string)
		return nil
	}, "github.com/spf13/viper.SetConfigFile")
	writeConfig := func(r *Run, fr *frame, args []Value) Value { return nil }
	reg(func(r *Run, fr *frame, args []Value) Value {
		// the "safe" variant refuses to overwrite an existing file
		name := args[0].(string)
		if f := r.fs().get(name); f.exists {
			return r.newError(fr, "Config File \""+name+"\" Already Exists")
		}
		return writeConfig(r, fr, args)
	}, "github.com/spf13/viper.SafeWriteConfigAs")
	writeConfig = func(r *Run, fr *frame, args []Value) Value {
		// writes an opaque snapshot of the store: distinct content for every call
		name := args[0].(string)
		r.fsOp("writeconfig " + name)
		r.viperSerial++
		txt := fmt.Sprintf("viper-config#%d:", r.viperSerial)
		for _, k := range sortedKeys(r.viper) {
			txt += k + ";"
		}
		f := r.fs().get(name)
		f.exists, f.isDir = true, false
		f.content = nil
		for i := 0; i < len(txt); i++ {
			f.content = append(f.content, r.tt.Const(8, uint64(txt[i])))
		}
		return Iface{}
	}
	reg(writeConfig, "github.com/spf13/viper.WriteConfigAs", "github.com/spf13/viper.WriteConfig")
}

// deepCopy copies aggregates and slices (restored configuration must not alias the saved one)
func deepCopy(v Value) Value {
	switch x := v.(type) {
	case Slice:
		if x == nil {
			return x
		}
		out := make(Slice, len(x))
		for i := range x {
			out[i] = deepCopy(x[i])
		}
		return out
	case Struct:
		out := make(Struct, len(x))
		for i := range x {
			out[i] = deepCopy(x[i])
		}
		return out
	case Array:
		out := make(Array, len(x))
		for i := range x {
			out[i] = deepCopy(x[i])
		}
		return out
	}
	return copyVal(v)
}

// ---- encoding/json: an opaque, injective token of the marshalled value (header text is
// not examined by any harness; only that something deterministic is written once)
func init() {
	tok := func(r *Run, fr *frame, args []Value) Value {
		txt := fmt.Sprintf("{json:%v}", r.goValue(args[0], nil))
		out := make(Slice, len(txt))
		for i := 0; i < len(txt); i++ {
			out[i] = r.tt.Const(8, uint64(txt[i]))
		}
		return Tuple{out, Iface{}}
	}
	reg(tok, "encoding/json.Marshal", "encoding/json.MarshalIndent")
}

// ---- zmq4: opaque sockets (what is sent is observed through the verif hook in publish)
func init() {
	reg(func(r *Run, fr *frame, args []Value) Value {
		var cell Value = Struct{}
		return Tuple{&cell, Iface{}}
	}, "github.com/pebbe/zmq4.NewSocket")
	reg(func(r *Run, fr *frame, args []Value) Value { return Iface{} },
		"(*github.com/pebbe/zmq4.Socket).Bind", "(*github.com/pebbe/zmq4.Socket).Close", "(*github.com/pebbe/zmq4.Socket).SetSndhwm",
		"(*github.com/pebbe/zmq4.Socket).Connect", "(*github.com/pebbe/zmq4.Socket).SetLinger")
	reg(func(r *Run, fr *frame, args []Value) Value { return Tuple{r.tt.Const(64, 1), Iface{}} },
		"(*github.com/pebbe/zmq4.Socket).SendMessage", "(*github.com/pebbe/zmq4.Socket).SendBytes", "(*github.com/pebbe/zmq4.Socket).Send")
}

// ---- reflect.TypeOf(x).String(): the type's name as text (used for log lines only)
func init() {
	reg(func(r *Run, fr *frame, args []Value) Value {
		iv, _ := args[0].(Iface)
		name := "<nil>"
		if iv.T != nil {
			name = iv.T.String()
		}
		rp := r.eng.prog.ImportedPackage("reflect")
		if rp == nil || rp.Type("rtype") == nil {
			fr.unsupported("reflect package not loaded")
		}
		var cell Value = name
		return Iface{T: types.NewPointer(rp.Type("rtype").Type()), V: &cell}
	}, "reflect.TypeOf")
	reg(func(r *Run, fr *frame, args []Value) Value {
		if p, ok := args[0].(*Value); ok && p != nil {
			if s, ok := (*p).(string); ok {
				return s
			}
		}
		return "<type>"
	}, "(*reflect.rtype).String", "(*reflect.rtype).Name")
}
