package main

import (
	"fmt"
	"go/token"
	"go/types"
	"slices"
	"strings"

	"golang.org/x/tools/go/ssa"
)

type deferred struct {
	fn    Value
	args  []Value
	instr *ssa.Defer
	tail  *deferred
}

type frame struct {
	r                *Run
	g                *Goroutine
	caller           *frame
	fn               *ssa.Function
	block, prevBlock *ssa.BasicBlock
	env              map[ssa.Value]Value
	locals           []Value
	defers           *deferred
	result           Value
	panicking        bool
	panicVal         interface{}
	phitemps         []Value
	curPos           token.Pos
	loopCount        map[*ssa.BasicBlock]int
}

// targetPanic is a panic of the program under test.
type targetPanic struct {
	v    Value  // the panic value (Iface)
	msg  string // human readable
	kind string // "index", "nil", "divide", "slice", "explicit", "typeassert", "chan", "makeslice"
	site string // file:line of the faulting instruction
	fn   string // function containing the faulting instruction
}

// abortRun ends the current path (not a target panic; bypasses target defers).
type abortRun struct {
	reason string // "assume", "bound", "unsupported", "done", "violation-stop", "killed"
	detail string
}

func (fr *frame) get(key ssa.Value) Value {
	switch key := key.(type) {
	case nil:
		return nil
	case *ssa.Function:
		return key
	case *ssa.Builtin:
		return key
	case *ssa.Const:
		return fr.r.constValue(key)
	case *ssa.Global:
		return fr.r.globalAddr(key)
	}
	if v, ok := fr.env[key]; ok {
		return v
	}
	panic(fmt.Sprintf("get: no value for %T: %v in %s", key, key.Name(), fr.fn))
}

func (r *Run) posStr(p token.Pos) string {
	if p == token.NoPos {
		return "?"
	}
	ps := r.eng.prog.Fset.Position(p)
	f := ps.Filename
	if strings.HasPrefix(f, r.eng.repoDir+"/") {
		f = f[len(r.eng.repoDir)+1:]
	} else if i := strings.LastIndex(f, "/go/src/"); i >= 0 {
		f = "$GOROOT/" + f[i+8:]
	} else if i := strings.LastIndex(f, "/pkg/mod/"); i >= 0 {
		f = "$MOD/" + f[i+9:]
	}
	return fmt.Sprintf("%s:%d", f, ps.Line)
}

func (fr *frame) site() string {
	// nearest position known in this frame; fall back to callers
	for f := fr; f != nil; f = f.caller {
		if f.curPos != token.NoPos {
			return fr.r.posStr(f.curPos)
		}
	}
	return "?"
}

// repoSite returns the innermost frame position that lies inside the repo
// (non-harness file), used for signatures of findings.
func (fr *frame) repoSite() string {
	for f := fr; f != nil; f = f.caller {
		if f.curPos == token.NoPos {
			continue
		}
		ps := fr.r.eng.prog.Fset.Position(f.curPos)
		if strings.HasPrefix(ps.Filename, fr.r.eng.repoDir+"/") && !strings.Contains(ps.Filename, "zz_verif") {
			return fr.r.posStr(f.curPos)
		}
	}
	return fr.site()
}

func (fr *frame) stack() []string {
	var out []string
	for f := fr; f != nil; f = f.caller {
		out = append(out, fmt.Sprintf("%s @%s", f.fn.String(), fr.r.posStr(f.curPos)))
		if len(out) > 30 {
			break
		}
	}
	return out
}

func (fr *frame) rtPanic(kind, msg string) {
	panic(targetPanic{v: Iface{T: types.Typ[types.String], V: "runtime error: " + msg}, msg: "runtime error: " + msg, kind: kind, site: fr.repoSite(), fn: fr.fn.String()})
}

func (fr *frame) unsupported(format string, args ...interface{}) {
	st := fr.stack()
	if len(st) > 8 {
		st = st[:8]
	}
	panic(abortRun{reason: "unsupported", detail: fmt.Sprintf(format, args...) + " at " + fr.site() + " in " + fr.fn.String() + "\n   " + strings.Join(st, "\n   ")})
}

func (fr *frame) runDefer(d *deferred) {
	var ok bool
	defer func() {
		if !ok {
			rec := recover()
			if ab, isAbort := rec.(abortRun); isAbort {
				panic(ab)
			}
			fr.panicking = true
			fr.panicVal = rec
		}
	}()
	fr.r.call(fr, d.instr.Pos(), d.fn, d.args)
	ok = true
}

func (fr *frame) runDefers() {
	for d := fr.defers; d != nil; d = d.tail {
		fr.runDefer(d)
	}
	fr.defers = nil
	if fr.panicking {
		panic(fr.panicVal)
	}
}

type continuation int

const (
	kNext continuation = iota
	kReturn
	kJump
)

func (fr *frame) step(n int) {
	r := fr.r
	r.steps += n
	if r.steps > r.eng.cfg.MaxSteps {
		panic(abortRun{reason: "bound", detail: fmt.Sprintf("instruction budget %d exceeded at %s in %s", r.eng.cfg.MaxSteps, fr.site(), fr.fn)})
	}
}

func (r *Run) visitInstr(fr *frame, instr ssa.Instruction) continuation {
	if p := instr.Pos(); p != token.NoPos {
		fr.curPos = p
	}
	switch instr := instr.(type) {
	case *ssa.DebugRef:

	case *ssa.UnOp:
		fr.env[instr] = r.unop(fr, instr, fr.get(instr.X))

	case *ssa.BinOp:
		fr.env[instr] = r.binop(fr, instr.Op, instr.X.Type(), fr.get(instr.X), fr.get(instr.Y), instr.Y.Type())

	case *ssa.Call:
		fn, args := r.prepareCall(fr, &instr.Call)
		fr.env[instr] = r.call(fr, instr.Pos(), fn, args)

	case *ssa.ChangeInterface:
		fr.env[instr] = fr.get(instr.X)

	case *ssa.ChangeType:
		fr.env[instr] = fr.get(instr.X)

	case *ssa.Convert:
		fr.env[instr] = r.conv(fr, instr, instr.Type(), instr.X.Type(), fr.get(instr.X))

	case *ssa.SliceToArrayPointer:
		x := fr.get(instr.X).(Slice)
		n := int(instr.Type().Underlying().(*types.Pointer).Elem().Underlying().(*types.Array).Len())
		if len(x) < n {
			fr.rtPanic("slice", fmt.Sprintf("cannot convert slice with length %d to array or pointer to array with length %d", len(x), n))
		}
		if x == nil {
			fr.env[instr] = (*Value)(nil)
		} else {
			var cell Value = Array(x[:n:n])
			fr.env[instr] = &cell
		}

	case *ssa.MakeInterface:
		fr.env[instr] = Iface{T: instr.X.Type(), V: fr.get(instr.X)}

	case *ssa.Extract:
		fr.env[instr] = fr.get(instr.Tuple).(Tuple)[instr.Index]

	case *ssa.Slice:
		fr.env[instr] = r.slice(fr, instr, fr.get(instr.X), fr.get(instr.Low), fr.get(instr.High), fr.get(instr.Max))

	case *ssa.Return:
		switch len(instr.Results) {
		case 0:
		case 1:
			fr.result = fr.get(instr.Results[0])
		default:
			var res Tuple
			for _, x := range instr.Results {
				res = append(res, fr.get(x))
			}
			fr.result = res
		}
		fr.block = nil
		return kReturn

	case *ssa.RunDefers:
		fr.runDefers()

	case *ssa.Panic:
		v := fr.get(instr.X)
		msg := "panic"
		if iv, ok := v.(Iface); ok {
			msg = "panic: " + fmtValue(iv.V)
		}
		panic(targetPanic{v: v, msg: msg, kind: "explicit", site: fr.repoSite(), fn: fr.fn.String()})

	case *ssa.Send:
		r.chanSend(fr, fr.get(instr.Chan), fr.get(instr.X))

	case *ssa.Store:
		r.store(fr, instr.Val.Type(), fr.get(instr.Addr), fr.get(instr.Val))

	case *ssa.If:
		succ := 1
		if r.branch(fr, fr.get(instr.Cond).(*Term)) {
			succ = 0
		}
		fr.prevBlock, fr.block = fr.block, fr.block.Succs[succ]
		return kJump

	case *ssa.Jump:
		fr.prevBlock, fr.block = fr.block, fr.block.Succs[0]
		return kJump

	case *ssa.Defer:
		fn, args := r.prepareCall(fr, &instr.Call)
		fr.defers = &deferred{fn: fn, args: args, instr: instr, tail: fr.defers}

	case *ssa.Go:
		fn, args := r.prepareCall(fr, &instr.Call)
		r.spawn(fr, instr.Pos(), fn, args)

	case *ssa.MakeChan:
		n := r.concretizeInt(fr, fr.get(instr.Size).(*Term), true)
		fr.env[instr] = r.newChan(int(n), instr.Type().Underlying().(*types.Chan).Elem())

	case *ssa.Alloc:
		var addr *Value
		if instr.Heap {
			addr = new(Value)
			fr.env[instr] = addr
		} else {
			addr = fr.env[instr].(*Value)
		}
		*addr = r.zero(deref(instr.Type()))

	case *ssa.MakeSlice:
		lt := fr.get(instr.Len).(*Term)
		ct := fr.get(instr.Cap).(*Term)
		lt = r.toInt64(lt, instr.Len.Type())
		ct = r.toInt64(ct, instr.Cap.Type())
		// negative length panics
		if !r.branch(fr, r.tt.Cmp(OpSLe, r.tt.Const(64, 0), lt)) {
			fr.rtPanic("makeslice", "makeslice: len out of range")
		}
		if !r.branch(fr, r.tt.Cmp(OpSLe, lt, ct)) {
			fr.rtPanic("makeslice", "makeslice: cap out of range")
		}
		n := int(r.concretizeInt(fr, lt, true))
		c := int(r.concretizeInt(fr, ct, true))
		if c > r.eng.cfg.MaxAlloc {
			panic(abortRun{reason: "bound", detail: fmt.Sprintf("make slice of %d elements exceeds MaxAlloc at %s", c, fr.site())})
		}
		et := instr.Type().Underlying().(*types.Slice).Elem()
		s := make(Slice, n, c)
		if n > 0 {
			z := r.zero(et)
			switch z.(type) {
			case Array, Struct:
				for i := range s {
					s[i] = r.zero(et)
				}
			default:
				for i := range s {
					s[i] = z
				}
			}
		}
		fr.env[instr] = s

	case *ssa.MakeMap:
		mt := instr.Type().Underlying().(*types.Map)
		fr.env[instr] = &Map{kt: mt.Key(), vt: mt.Elem()}

	case *ssa.Range:
		fr.env[instr] = r.rangeIter(fr, fr.get(instr.X), instr.X.Type())

	case *ssa.Next:
		fr.env[instr] = r.next(fr, fr.get(instr.Iter))

	case *ssa.FieldAddr:
		p := r.ptrOf(fr, fr.get(instr.X))
		if p == nil {
			fr.rtPanic("nil", "invalid memory address or nil pointer dereference")
		}
		st, ok := (*p).(Struct)
		if !ok {
			fr.unsupported("FieldAddr on non-struct cell %T", *p)
		}
		fr.env[instr] = &st[instr.Field]

	case *ssa.Field:
		fr.env[instr] = copyVal(fr.get(instr.X).(Struct)[instr.Field])

	case *ssa.IndexAddr:
		fr.env[instr] = r.indexAddr(fr, instr)

	case *ssa.Index:
		fr.env[instr] = r.index(fr, instr)

	case *ssa.Lookup:
		fr.env[instr] = r.lookup(fr, instr, fr.get(instr.X), fr.get(instr.Index))

	case *ssa.MapUpdate:
		m := fr.get(instr.Map).(*Map)
		if m == nil {
			panic(targetPanic{v: Iface{T: types.Typ[types.String], V: "assignment to entry in nil map"}, msg: "assignment to entry in nil map", kind: "nilmap", site: fr.repoSite(), fn: fr.fn.String()})
		}
		r.mapUpdate(fr, m, fr.get(instr.Key), fr.get(instr.Value))

	case *ssa.TypeAssert:
		fr.env[instr] = r.typeAssert(fr, instr, fr.get(instr.X).(Iface))

	case *ssa.MakeClosure:
		var bindings []Value
		for _, b := range instr.Bindings {
			bindings = append(bindings, fr.get(b))
		}
		fr.env[instr] = &Closure{Fn: instr.Fn.(*ssa.Function), Env: bindings}

	case *ssa.Phi:
		panic("unexpected phi")

	case *ssa.Select:
		fr.env[instr] = r.selectStmt(fr, instr)

	default:
		fr.unsupported("instruction %T", instr)
	}
	return kNext
}

func deref(t types.Type) types.Type {
	if p, ok := t.Underlying().(*types.Pointer); ok {
		return p.Elem()
	}
	panic(fmt.Sprintf("deref: not a pointer: %v", t))
}

func (r *Run) prepareCall(fr *frame, call *ssa.CallCommon) (fn Value, args []Value) {
	v := fr.get(call.Value)
	if call.Method == nil {
		fn = v
	} else {
		recv := v.(Iface)
		if recv.T == nil {
			fr.rtPanic("nil", "invalid memory address or nil pointer dereference (method call on nil interface)")
		}
		f := r.lookupMethod(recv.T, call.Method)
		if f == nil {
			fr.unsupported("method %s not found for dynamic type %v", call.Method, recv.T)
		}
		fn = f
		args = append(args, recv.V)
	}
	for _, arg := range call.Args {
		args = append(args, fr.get(arg))
	}
	return
}

func (r *Run) lookupMethod(typ types.Type, meth *types.Func) *ssa.Function {
	return r.eng.prog.LookupMethod(typ, meth.Pkg(), meth.Name())
}

func (r *Run) call(caller *frame, callpos token.Pos, fn Value, args []Value) Value {
	switch fn := fn.(type) {
	case *ssa.Function:
		if fn == nil {
			caller.rtPanic("nil", "call of nil function")
		}
		return r.callSSA(caller, callpos, fn, args, nil)
	case *Closure:
		if fn == nil {
			caller.rtPanic("nil", "invalid memory address or nil pointer dereference (call of nil func)")
		}
		return r.callSSA(caller, callpos, fn.Fn, args, fn.Env)
	case *ssa.Builtin:
		return r.callBuiltin(caller, callpos, fn, args)
	case *boundMethod:
		return r.call(caller, callpos, fn.fn, append([]Value{fn.recv}, args...))
	}
	panic(fmt.Sprintf("cannot call %T", fn))
}

// useRealBody: returned by an intercept that handles only some argument shapes.
type useRealBody struct{}

type boundMethod struct {
	fn   Value
	recv Value
}

func (r *Run) callSSA(caller *frame, callpos token.Pos, fn *ssa.Function, args []Value, env []Value) Value {
	var g *Goroutine
	if caller != nil {
		g = caller.g
	} else {
		g = r.cur
	}
	fr := &frame{r: r, g: g, caller: caller, fn: fn}
	if caller != nil && callpos != token.NoPos {
		caller.curPos = callpos
	}
	if ic := r.eng.intercept(fn); ic != nil {
		v := ic(r, fr, args)
		if _, real := v.(useRealBody); !real {
			r.noteFn(fn, true)
			return v
		}
	}
	if r.stubFuncs != nil {
		if m, ok := r.stubFuncs[fn.String()]; ok {
			r.noteFn(fn, true)
			return r.call(caller, callpos, m, args)
		}
	}
	if r.stubs != nil && r.stubs[fn.String()] {
		r.noteFn(fn, true)
		return noop(r, fr, args)
	}
	if fn.Blocks == nil {
		if fn.Synthetic != "" && strings.Contains(fn.Synthetic, "instantiation") {
			// should have been instantiated
		}
		fr.unsupported("no body for function %s (needs an intercept)", fn.String())
	}
	if fn.TypeParams().Len() > 0 && len(fn.TypeArgs()) == 0 {
		fr.unsupported("uninstantiated generic function %s", fn.String())
	}
	r.noteFn(fn, false)
	r.depth++
	if r.depth > r.eng.cfg.MaxDepth {
		panic(abortRun{reason: "bound", detail: "call depth exceeded in " + fn.String()})
	}
	defer func() { r.depth-- }()
	fr.env = make(map[ssa.Value]Value, 16)
	fr.block = fn.Blocks[0]
	fr.locals = make([]Value, len(fn.Locals))
	for i, l := range fn.Locals {
		fr.locals[i] = r.zero(deref(l.Type()))
		fr.env[l] = &fr.locals[i]
	}
	for i, p := range fn.Params {
		fr.env[p] = args[i]
	}
	for i, fv := range fn.FreeVars {
		fr.env[fv] = env[i]
	}
	for fr.block != nil {
		r.runFrame(fr)
	}
	return fr.result
}

func (r *Run) runFrame(fr *frame) {
	defer func() {
		if fr.block == nil {
			return // normal return
		}
		rec := recover()
		if ab, ok := rec.(abortRun); ok {
			panic(ab)
		}
		if _, ok := rec.(targetPanic); !ok {
			// engine bug or Go runtime error inside the engine: convert to abort with detail
			panic(abortRun{reason: "engine-error", detail: fmt.Sprintf("%v\n  at %s in %s\n%s", rec, fr.site(), fr.fn, engineStack())})
		}
		fr.panicking = true
		fr.panicVal = rec
		fr.runDefers()
		fr.block = fr.fn.Recover
	}()

	for {
		blk := fr.block
		if len(blk.Preds) > 1 {
			if fr.loopCount == nil {
				fr.loopCount = map[*ssa.BasicBlock]int{}
			}
			fr.loopCount[blk]++
			if fr.loopCount[blk] > r.eng.cfg.MaxLoop {
				panic(abortRun{reason: "bound", detail: fmt.Sprintf("loop unwinding bound %d exceeded at %s in %s", r.eng.cfg.MaxLoop, r.posStr(firstPos(blk)), fr.fn)})
			}
		}
		nonPhis := r.executePhis(fr)
		fr.step(len(nonPhis))
		for _, instr := range nonPhis {
			if r.eng.cfg.Trace {
				r.traceInstr(fr, instr)
			}
			if r.visitInstr(fr, instr) == kReturn {
				return
			}
		}
	}
}

func firstPos(b *ssa.BasicBlock) token.Pos {
	for _, in := range b.Instrs {
		if in.Pos() != token.NoPos {
			return in.Pos()
		}
	}
	return token.NoPos
}

func (r *Run) executePhis(fr *frame) []ssa.Instruction {
	firstNonPhi := -1
	for i, instr := range fr.block.Instrs {
		if _, ok := instr.(*ssa.Phi); !ok {
			firstNonPhi = i
			break
		}
	}
	nonPhis := fr.block.Instrs[firstNonPhi:]
	if firstNonPhi > 0 {
		phis := fr.block.Instrs[:firstNonPhi]
		predIndex := slices.Index(fr.block.Preds, fr.prevBlock)
		fr.phitemps = fr.phitemps[:0]
		for _, phi := range phis {
			phi := phi.(*ssa.Phi)
			fr.phitemps = append(fr.phitemps, fr.get(phi.Edges[predIndex]))
		}
		for i, phi := range phis {
			fr.env[phi.(*ssa.Phi)] = fr.phitemps[i]
		}
	}
	return nonPhis
}

func (r *Run) traceInstr(fr *frame, instr ssa.Instruction) {
	if v, ok := instr.(ssa.Value); ok {
		fmt.Fprintf(r.eng.traceOut, "[g%d] %s\t%s = %s\n", fr.g.id, fr.fn.Name(), v.Name(), instr)
	} else {
		fmt.Fprintf(r.eng.traceOut, "[g%d] %s\t%s\n", fr.g.id, fr.fn.Name(), instr)
	}
}

func (r *Run) doRecover(caller *frame) Value {
	// recover() must be called directly by a deferred function of a panicking frame
	if caller.caller != nil && caller.caller.panicking {
		caller.caller.panicking = false
		p := caller.caller.panicVal
		caller.caller.panicVal = nil
		switch p := p.(type) {
		case targetPanic:
			return p.v
		default:
			panic(p)
		}
	}
	return Iface{}
}
