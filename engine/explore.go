package main

import (
	"fmt"
	"go/types"
	"io"
	"os"
	"runtime/debug"
	"sort"
	"strings"
	"sync"
	"sync/atomic"
	"time"

	"golang.org/x/tools/go/ssa"
)

type Config struct {
	MaxSteps        int  // per-path instruction budget
	MaxLoop         int  // per-frame loop-header visit bound (unwinding assertion)
	MaxDepth        int  // call depth
	MaxAlloc        int  // largest make([]T, n)
	MaxIte          int  // largest ite chain for symbolic index
	MaxPaths        int  // stop after this many paths (reported as bound exceeded)
	Trace           bool // instruction trace
	RealFloats      bool // int->float of symbolic values becomes Real terms
	MapOrders       bool // explore iteration orders of small maps
	SchedMode       int  // 0 = run-to-block, 1 = symbolic scheduler
	CtxBound        int  // max preemptive context switches (symbolic scheduler)
	EnvFires        int  // max environment (ticker/timer) firings per path
	NPBound         int  // max free scheduling choices at blocking points per path (0 = unbounded)
	Race            bool // happens-before race monitor
	LazyFires       int  // separate budget for timer firings at quiescence (0: they share EnvFires)
	EnvBoundOK      bool // a path on which everybody waits for a timer after the firing budget is spent is truncated (counted as "envbound"), not reported as a deadlock
	EnvLazy         bool // tickers/timers fire only when every goroutine is blocked (no "fires now" choice)
	Solver          string
	TimeoutMS       int
	Workers         int
	StopOnViolation bool
	SelectChoice    bool
	SelectLast      bool // without SelectChoice: a select with several ready cases takes the last one (default: the first)
	Deadline        time.Time
}

type Engine struct {
	prog     *ssa.Program
	pkgs     map[string]*ssa.Package
	repoDir  string
	repoMod  string
	sizes    types.Sizes
	cfg      Config
	traceOut io.Writer

	icMu        sync.Mutex
	icCache     map[*ssa.Function]interceptFn
	wantModels  bool
	modelBudget int64 // full models are produced for the first so many completed paths only (witness replays sample from them)
	params      map[string]int
}

type Decision struct {
	b bool
	v uint64
	n int // for choose: arity (0 = boolean/concretize decision)
}

type workItem struct {
	prefix []Decision
	model  Model
}

type Violation struct {
	Kind          string            `json:"kind"` // check, panic, deadlock
	Label         string            `json:"label"`
	Site          string            `json:"site"`
	Fn            string            `json:"fn"`
	Msg           string            `json:"msg"`
	Inputs        map[string]uint64 `json:"inputs"`
	Sched         []int             `json:"sched,omitempty"`
	Stack         []string          `json:"stack,omitempty"`
	Tags          []string          `json:"tags,omitempty"`
	PathDecisions int               `json:"path_decisions"`
}

type symInput struct {
	name string
	t    *Term
}

type PathResult struct {
	End                                                              string // "ok", "assume", "panic", "bound", "unsupported", "engine-error", "deadlock", "violation-stop"
	Detail                                                           string
	Violations                                                       []Violation
	Witnesses                                                        []string
	Checks                                                           map[string]int // label -> times evaluated
	Observes                                                         []observation
	Inputs                                                           []symInput
	Steps                                                            int
	Decisions                                                        int
	Model                                                            Model // a model of the full path condition (if requested)
	obligations, discharged, obligationsUnknown, unknowns, syntactic int
	modelInputs                                                      map[string]uint64
	observeVals                                                      []string
	forkSites                                                        map[string]int
}

type observation struct {
	label string
	t     *Term
}

// Worker: one solver process + term table + shared std globals.
type Worker struct {
	id            int
	eng           *Engine
	tt            *TermTab
	solver        *Solver
	stdGlobals    map[*ssa.Global]*Value
	stdInited     map[*ssa.Package]bool
	fnSeen        map[*ssa.Function]bool
	fnIntercepted map[*ssa.Function]bool
	assumptions   map[string]bool
}

// Run: one path execution.
type Run struct {
	eng *Engine
	w   *Worker
	tt  *TermTab

	globals map[*ssa.Global]*Value
	inited  map[*ssa.Package]bool

	prefix    []Decision
	decisions []Decision
	pc        []*Term
	synced    int // number of pc entries asserted in solver
	pushed    bool
	model     Model
	modelOK   bool
	memo      map[*Term]uint64

	steps                int
	depth                int
	fresh                int
	unknownFloatBranches int

	inputs    []symInput
	inputSeen map[string]bool
	res       PathResult
	newWork   []workItem
	tags      []string

	// goroutines
	gs            []*Goroutine
	cur           *Goroutine
	main          *Goroutine
	nativeWG      sync.WaitGroup
	abortWith     *abortRun
	schedTrace    []int
	ctxSwitches   int
	npChoices     int
	envFires      int
	lazyFires     int
	nextChanID    int
	fsys          *fsModel
	ghost         map[string][]Value
	solverUnknown int
	mutexes       map[*Value]*mutexState
	wgs           map[*Value]int64
	onces         map[*Value]bool
	pools         map[*Value][]Value
	curFrame      *frame
	stubs         map[string]bool
	shadow        map[interface{}]*shadowCell
	racesSeen     map[string]bool
	syncVC        map[interface{}]vclock
	lazyAxioms    []*Term
	lazyAxiomKeys []*Term
	timersQuiet   bool
	realBacked    map[string]bool
	stubFuncs     map[string]Value
	pcSet         map[*Term]bool
	clockConcrete bool
	viper         map[string]Value
	viperFile     string
	viperSerial   int
	tmpSerial     int
	nowCount      int
	lastNow       *Term
	envChans      []*Chan
	faultBudget   int
	notExist      map[*Value]bool
}

func (r *Run) noteFn(fn *ssa.Function, intercepted bool) {
	if intercepted {
		r.w.fnIntercepted[fn] = true
	} else {
		r.w.fnSeen[fn] = true
	}
}

func (r *Run) noteAssumption(s string) { r.w.assumptions[s] = true }

func (r *Run) noteWrite(fr *frame, p *Value) {}

func engineStack() string {
	s := string(debug.Stack())
	lines := strings.Split(s, "\n")
	if len(lines) > 40 {
		lines = lines[:40]
	}
	return strings.Join(lines, "\n")
}

// ---- path condition and decisions

func (r *Run) addPC(c *Term) {
	if c.IsTrue() {
		return
	}
	r.pc = append(r.pc, c)
	if r.pcSet == nil {
		r.pcSet = map[*Term]bool{}
	}
	r.pcSet[c] = true
}

func (r *Run) syncSolver() {
	if !r.pushed {
		r.w.solver.Push()
		r.pushed = true
	}
	for r.synced < len(r.pc) {
		r.w.solver.Assert(r.pc[r.synced])
		r.synced++
	}
}

// evalModel evaluates c under the current model, if there is one.
func (r *Run) evalModel(c *Term) (bool, bool) {
	if !r.modelOK {
		return false, false
	}
	v, ok := c.Eval(r.model, r.memo)
	return v != 0, ok
}

func (r *Run) setModel(m Model) {
	r.model = m
	r.modelOK = m != nil
	r.memo = map[*Term]uint64{}
}

// feasible asks the solver whether pc ∧ c is satisfiable.
// Unknown counts as feasible (and is recorded).
func (r *Run) feasible(c *Term) (bool, Model) {
	r.syncSolver()
	if r.curFrame != nil {
		r.w.solver.ctx = "feasible@" + r.curFrame.site() + " in " + r.curFrame.fn.Name()
		if debugForks {
			r.w.solver.ctx += " q=" + c.String() + " pc="
			for _, p := range r.pc {
				r.w.solver.ctx += " ∧ " + p.String()
			}
		}
	}
	res := r.w.solver.CheckWith(c)
	switch res {
	case Unsat:
		return false, nil
	case Unknown:
		r.solverUnknown++
		return true, nil
	}
	// fetch model: need c asserted for get-value to reflect it; check-sat-assuming keeps model
	m, err := r.w.solver.Model()
	if err != nil {
		return true, nil
	}
	return true, m
}

func (r *Run) checkDeadline() {
	if !r.eng.cfg.Deadline.IsZero() && time.Now().After(r.eng.cfg.Deadline) {
		panic(abortRun{reason: "bound", detail: "wall-clock deadline reached"})
	}
}

// branch decides a symbolic condition; returns which way this path goes.
func (r *Run) branch(fr *frame, c *Term) bool {
	if c.IsConst() {
		return c.val != 0
	}
	r.curFrame = fr
	idx := len(r.decisions)
	if idx < len(r.prefix) {
		d := r.prefix[idx]
		r.decisions = append(r.decisions, d)
		if d.b {
			r.addPC(c)
		} else {
			r.addPC(r.tt.Not(c))
		}
		if r.modelOK {
			if v, ok := r.evalModel(c); !ok || v != d.b {
				r.modelOK = false
			}
		}
		return d.b
	}
	r.checkDeadline()
	// new decision
	var feasT, feasF bool
	var mT, mF Model
	if r.pcSet[c] {
		// the condition is literally part of the path condition (e.g. a sample scanned again
		// after a block boundary): no solver call needed
		feasT = true
	} else if r.pcSet[r.tt.Not(c)] {
		feasF = true
	} else if v, ok := r.evalModel(c); ok {
		if v {
			feasT, mT = true, r.model
			feasF, mF = r.feasible(r.tt.Not(c))
		} else {
			feasF, mF = true, r.model
			feasT, mT = r.feasible(c)
		}
	} else {
		feasT, mT = r.feasible(c)
		if !feasT {
			feasF = true // pc is satisfiable by invariant
			mF = nil
		} else {
			feasF, mF = r.feasible(r.tt.Not(c))
		}
	}
	var take bool
	switch {
	case feasT && feasF:
		r.noteFork(fr, "branch")
		// continue with the side for which we hold the current model, if any
		take = true
		if r.modelOK {
			if v, ok := r.evalModel(c); ok {
				take = v
			}
		}
		alt := append(append([]Decision(nil), r.decisions...), Decision{b: !take})
		var am Model
		if take {
			am = mF
		} else {
			am = mT
		}
		r.newWork = append(r.newWork, workItem{prefix: alt, model: am})
	case feasT:
		take = true
	case feasF:
		take = false
	default:
		// pc itself infeasible (can happen after Unknown); end path
		panic(abortRun{reason: "assume", detail: "infeasible path"})
	}
	r.decisions = append(r.decisions, Decision{b: take})
	if take {
		r.addPC(c)
		if mT != nil {
			r.setModel(mT)
		} else if v, ok := r.evalModel(c); !ok || !v {
			r.modelOK = false
		}
	} else {
		r.addPC(r.tt.Not(c))
		if mF != nil {
			r.setModel(mF)
		} else if v, ok := r.evalModel(c); !ok || v {
			r.modelOK = false
		}
	}
	return take
}

// choose makes an n-ary nondeterministic choice (no constraint involved).
func (r *Run) choose(fr *frame, n int, what string) int {
	if n <= 1 {
		return 0
	}
	idx := len(r.decisions)
	if idx < len(r.prefix) {
		d := r.prefix[idx]
		r.decisions = append(r.decisions, d)
		return int(d.v)
	}
	r.noteFork(fr, "choose:"+what)
	for k := 1; k < n; k++ {
		alt := append(append([]Decision(nil), r.decisions...), Decision{v: uint64(k), n: n})
		var m Model
		if r.modelOK {
			m = r.model
		}
		r.newWork = append(r.newWork, workItem{prefix: alt, model: m})
	}
	r.decisions = append(r.decisions, Decision{v: 0, n: n})
	return 0
}

func (r *Run) ensureModel() {
	if r.modelOK {
		return
	}
	r.syncSolver()
	res := r.w.solver.Check()
	if res == Unsat {
		panic(abortRun{reason: "assume", detail: "infeasible path (ensureModel)"})
	}
	if res == Unknown {
		r.solverUnknown++
		panic(abortRun{reason: "solver-unknown", detail: "solver returned unknown for path condition"})
	}
	m, err := r.w.solver.Model()
	if err != nil {
		panic(abortRun{reason: "solver-unknown", detail: "model: " + err.Error()})
	}
	r.setModel(m)
}

// concretize forks over the feasible values of t.
func (r *Run) concretize(fr *frame, t *Term) uint64 {
	if t.IsConst() {
		return t.val
	}
	r.curFrame = fr
	for iter := 0; ; iter++ {
		if iter > 4096 {
			panic(abortRun{reason: "bound", detail: "concretization fan-out > 4096 at " + fr.site()})
		}
		idx := len(r.decisions)
		var v uint64
		if idx < len(r.prefix) {
			v = r.prefix[idx].v
		} else {
			r.ensureModel()
			vv, ok := t.Eval(r.model, r.memo)
			if !ok {
				fr.unsupported("cannot evaluate term for concretization")
			}
			v = vv
		}
		eq := r.tt.Eq(t, r.tt.Const(t.sort, v))
		// branch() will consult prefix[idx] itself; ensure value recorded
		if idx < len(r.prefix) {
			d := r.prefix[idx]
			r.decisions = append(r.decisions, d)
			if d.b {
				r.addPC(eq)
				if r.modelOK {
					if x, ok := r.evalModel(eq); !ok || !x {
						r.modelOK = false
					}
				}
				return v
			}
			r.addPC(r.tt.Not(eq))
			if r.modelOK {
				if x, ok := r.evalModel(eq); !ok || x {
					r.modelOK = false
				}
			}
			continue
		}
		// new: the model satisfies eq; is the other side feasible?
		feasF, mF := r.feasible(r.tt.Not(eq))
		if feasF {
			r.noteFork(fr, "concretize")
			alt := append(append([]Decision(nil), r.decisions...), Decision{b: false, v: v})
			r.newWork = append(r.newWork, workItem{prefix: alt, model: mF})
		}
		r.decisions = append(r.decisions, Decision{b: true, v: v})
		r.addPC(eq)
		return v
	}
}

var debugForks = os.Getenv("VERIF_FORKSITES") != ""

func (r *Run) noteFork(fr *frame, kind string) {
	if !debugForks || fr == nil {
		return
	}
	if r.res.forkSites == nil {
		r.res.forkSites = map[string]int{}
	}
	r.res.forkSites[kind+"@"+fr.site()+" in "+fr.fn.Name()]++
}

func (r *Run) concretizeInt(fr *frame, t *Term, signed bool) int64 {
	v := r.concretize(fr, t)
	if signed {
		return signExt(v, t.sort)
	}
	return int64(v)
}

// ---- harness API

func (r *Run) symVar(name string, s Sort) *Term {
	if r.inputSeen[name] {
		// same name twice on one path: make it distinct but deterministic
		k := 2
		for r.inputSeen[fmt.Sprintf("%s#%d", name, k)] {
			k++
		}
		name = fmt.Sprintf("%s#%d", name, k)
	}
	r.inputSeen[name] = true
	t := r.tt.Var(s, name)
	r.inputs = append(r.inputs, symInput{name, t})
	return t
}

func (r *Run) assume(fr *frame, c *Term) {
	if c.IsTrue() {
		return
	}
	r.curFrame = fr
	if c.IsFalse() {
		panic(abortRun{reason: "assume"})
	}
	// decide feasibility of c; do not fork
	idx := len(r.decisions)
	if idx < len(r.prefix) {
		r.decisions = append(r.decisions, r.prefix[idx])
		r.addPC(c)
		if v, ok := r.evalModel(c); !ok || !v {
			r.modelOK = false
		}
		return
	}
	r.checkDeadline()
	if v, ok := r.evalModel(c); ok && v {
		r.decisions = append(r.decisions, Decision{b: true})
		r.addPC(c)
		return
	}
	feas, m := r.feasible(c)
	if !feas {
		panic(abortRun{reason: "assume"})
	}
	r.decisions = append(r.decisions, Decision{b: true})
	r.addPC(c)
	if m != nil {
		r.setModel(m)
	} else {
		r.modelOK = false
	}
}

func (r *Run) modelInputs(m Model) map[string]uint64 {
	out := map[string]uint64{}
	memo := map[*Term]uint64{}
	for _, in := range r.inputs {
		v, _ := in.t.Eval(m, memo)
		out[in.name] = v
	}
	// internal nondeterminism ($-prefixed) that appears in the model is kept too
	for k, v := range m {
		if strings.HasPrefix(k, "$") {
			out[k] = v
		}
	}
	return out
}

// check: assertion. If pc ∧ ¬c is satisfiable -> violation with model.
func (r *Run) check(fr *frame, c *Term, label string) {
	r.res.Checks[label]++
	if c.IsTrue() {
		if len(r.decisions) >= len(r.prefix) {
			r.res.obligations++
			r.res.discharged++
			r.res.syntactic++
		}
		return
	}
	idx := len(r.decisions)
	replay := idx < len(r.prefix)
	if replay {
		// already judged when first encountered; just constrain
		r.decisions = append(r.decisions, r.prefix[idx])
		if c.IsFalse() {
			panic(abortRun{reason: "violation-stop"})
		}
		r.addPC(c)
		if v, ok := r.evalModel(c); !ok || !v {
			r.modelOK = false
		}
		return
	}
	r.checkDeadline()
	r.res.obligations++
	var feasBad bool
	var mBad Model
	if r.pcSet[c] {
		// the asserted condition is literally a conjunct of the path condition
		r.res.discharged++
		r.res.syntactic++
		r.decisions = append(r.decisions, Decision{b: true})
		return
	}
	if v, ok := r.evalModel(c); ok && !v && len(r.lazyAxioms) == 0 {
		feasBad, mBad = true, r.model
	} else {
		r.syncSolver()
		r.w.solver.ctx = "check:" + label
		nc := r.tt.Not(c)
		// axioms needed by assertion queries only (see math.Sqrt): those whose function
		// application occurs in the asserted condition
		if len(r.lazyAxioms) > 0 {
			seen := map[*Term]bool{}
			var walk func(t *Term)
			walk = func(t *Term) {
				if t == nil || seen[t] {
					return
				}
				seen[t] = true
				walk(t.a)
				walk(t.b)
				walk(t.c)
			}
			walk(c)
			for i, ax := range r.lazyAxioms {
				if seen[r.lazyAxiomKeys[i]] {
					nc = r.tt.And(nc, ax)
				}
			}
		}
		res := r.w.solver.CheckWith(nc)
		switch res {
		case Sat:
			feasBad = true
			mBad, _ = r.w.solver.Model()
		case Unknown:
			// second opinion from a fresh (non-incremental) solver process with four times the
			// time limit: the incremental solver's verdict depends on what it has seen before
			// and its clock is wall time, which a loaded machine stretches
			switch res2, m2 := r.retryFresh(nc); res2 {
			case Sat:
				feasBad, mBad = true, m2
			case Unknown:
				r.solverUnknown++
				r.res.obligationsUnknown++
			}
		}
	}
	if feasBad {
		v := Violation{Kind: "check", Label: label, Site: fr.caller.repoSiteOrSelf(), Fn: fr.caller.fnName(), Msg: "check failed: " + label,
			Stack: fr.stack(), Tags: append([]string(nil), r.tags...), PathDecisions: len(r.decisions)}
		if mBad != nil {
			v.Inputs = r.modelInputs(mBad)
		}
		v.Sched = append([]int(nil), r.schedTrace...)
		r.res.Violations = append(r.res.Violations, v)
	} else {
		r.res.discharged++
	}
	r.decisions = append(r.decisions, Decision{b: true})
	if c.IsFalse() {
		panic(abortRun{reason: "violation-stop"})
	}
	// continue under the assumption that the check holds
	if feasBad {
		feas, m := r.feasible(c)
		if !feas {
			panic(abortRun{reason: "violation-stop"})
		}
		r.addPC(c)
		if m != nil {
			r.setModel(m)
		} else {
			r.modelOK = false
		}
	} else {
		r.addPC(c)
	}
}

// retryFresh decides pc ∧ extra with a new solver process.
func (r *Run) retryFresh(extra *Term) (SatResult, Model) {
	s2, err := NewSolver(r.eng.cfg.Solver, 4*r.eng.cfg.TimeoutMS)
	if err != nil {
		return Unknown, nil
	}
	defer s2.Close()
	s2.ctx = "retry:" + r.w.solver.ctx
	for _, p := range r.pc {
		s2.Assert(p)
	}
	res := s2.CheckWith(extra)
	if res == Sat {
		m, _ := s2.Model()
		return res, m
	}
	return res, nil
}

func (fr *frame) repoSiteOrSelf() string {
	if fr == nil {
		return "?"
	}
	return fr.site()
}
func (fr *frame) fnName() string {
	if fr == nil {
		return "?"
	}
	return fr.fn.String()
}

// ---- executing one path

func (w *Worker) runPath(entry *ssa.Function, item workItem) (res *PathResult, newWork []workItem) {
	r := &Run{eng: w.eng, w: w, tt: w.tt,
		globals: map[*ssa.Global]*Value{}, inited: map[*ssa.Package]bool{},
		prefix: item.prefix, inputSeen: map[string]bool{}, memo: map[*Term]uint64{},
		ghost: map[string][]Value{}}
	r.res.Checks = map[string]int{}
	if item.model != nil {
		r.setModel(item.model)
	} else {
		r.setModel(Model{}) // empty pc: any assignment (zeros) is a model
	}
	r.initGoroutines()
	defer func() {
		rec := recover()
		r.killGoroutines()
		if r.pushed {
			w.solver.Pop()
		}
		end := "ok"
		detail := ""
		switch p := rec.(type) {
		case nil:
		case abortRun:
			end, detail = p.reason, p.detail
		case targetPanic:
			end, detail = "panic", p.msg
			v := Violation{Kind: "panic", Label: "panic:" + p.kind, Site: p.site, Fn: p.fn, Msg: p.msg, Tags: append([]string(nil), r.tags...), PathDecisions: len(r.decisions)}
			r.finishViolation(&v)
			r.res.Violations = append(r.res.Violations, v)
		default:
			end, detail = "engine-error", fmt.Sprintf("%v\n%s", rec, engineStack())
		}
		if debugForks {
			ds := ""
			for _, d := range r.decisions {
				if d.n > 0 {
					ds += fmt.Sprintf("c%d/%d ", d.v, d.n)
				} else if d.b {
					ds += fmt.Sprintf("T%d ", d.v)
				} else {
					ds += fmt.Sprintf("F%d ", d.v)
				}
			}
			fmt.Fprintf(os.Stderr, "PATH end=%s prefix=%d new=%d: %s\n", end, len(r.prefix), len(r.newWork), ds)
		}
		r.res.End = end
		r.res.Detail = detail
		r.res.Steps = r.steps
		r.res.Decisions = len(r.decisions)
		r.res.Inputs = r.inputs
		r.res.unknowns = r.solverUnknown
		res = &r.res
		newWork = r.newWork
	}()
	// package initialisation
	r.initPackages()
	r.callSSA(nil, 0, entry, nil, nil)
	if r.abortWith != nil {
		panic(*r.abortWith)
	}
	// path completed: obtain a full model for witness replay if wanted
	if r.eng.wantModels && atomic.AddInt64(&r.eng.modelBudget, -1) >= 0 {
		func() {
			defer func() { recover() }()
			// a witness model is a convenience (native cross-check of a sample of paths): give
			// the solver a few seconds, not the proof time limit
			if !r.modelOK {
				r.w.solver.SetTimeout(8000)
				defer r.w.solver.SetTimeout(r.eng.cfg.TimeoutMS)
				u := r.solverUnknown
				defer func() { r.solverUnknown = u }()
			}
			r.ensureModel()
			r.res.Model = r.model
			r.res.modelInputs = r.modelInputs(r.model)
			for _, o := range r.res.Observes {
				if v, ok := o.t.Eval(r.model, r.memo); ok {
					r.res.observeVals = append(r.res.observeVals, fmt.Sprintf("%s=%d", o.label, signExt(v, o.t.sort)))
				} else {
					r.res.observeVals = append(r.res.observeVals, o.label+"=?")
				}
			}
		}()
	}
	return
}

// finishViolation attaches a model for a panic path (pc is satisfiable).
func (r *Run) finishViolation(v *Violation) {
	defer func() { recover() }()
	r.ensureModel()
	v.Inputs = r.modelInputs(r.model)
	v.Sched = append([]int(nil), r.schedTrace...)
}

// ---- exploration driver

type ExploreResult struct {
	Harness      string
	Paths        int
	Ends         map[string]int
	Details      map[string]int // detail strings for non-ok ends
	Violations   []Violation
	Witnesses    map[string]int
	Checks       map[string]int
	Obligations  int
	Discharged   int
	ObligUnknown int
	Decisions    int
	Steps        int
	Unknowns     int
	Solver       solverStats
	Functions    []string
	Intercepts   []string
	Assumptions  []string
	Samples      []map[string]interface{}
	WitnessRuns  []witnessRun
	Wall         time.Duration
	TermCount    int
}

type witnessRun struct {
	Inputs   map[string]uint64
	Observes []string
	End      string
}

func (e *Engine) Explore(entry *ssa.Function, name string) *ExploreResult {
	atomic.StoreInt64(&e.modelBudget, 24)
	start := time.Now()
	out := &ExploreResult{Harness: name, Ends: map[string]int{}, Details: map[string]int{}, Witnesses: map[string]int{}, Checks: map[string]int{}}
	var mu sync.Mutex
	cond := sync.NewCond(&mu)
	work := []workItem{{}}
	active := 0
	stop := false
	nw := e.cfg.Workers
	if nw < 1 {
		nw = 1
	}
	var wg sync.WaitGroup
	progDone := make(chan struct{})
	if os.Getenv("VERIF_PROGRESS") != "" {
		go func() {
			tk := time.NewTicker(10 * time.Second)
			defer tk.Stop()
			for {
				select {
				case <-progDone:
					return
				case <-tk.C:
					mu.Lock()
					fmt.Fprintf(os.Stderr, "PROGRESS %s: %.0fs paths=%d queue=%d active=%d violations=%d ends=%v\n", name, time.Since(start).Seconds(), out.Paths, len(work), active, len(out.Violations), out.Ends)
					mu.Unlock()
				}
			}
		}()
	}
	defer close(progDone)
	fnSeen := map[string]bool{}
	fnIc := map[string]bool{}
	assumptions := map[string]bool{}
	for i := 0; i < nw; i++ {
		wg.Add(1)
		go func(id int) {
			defer wg.Done()
			var w *Worker
			defer func() {
				if w != nil {
					mu.Lock()
					st := w.solver.stats
					out.Solver.Queries += st.Queries
					out.Solver.Sat += st.Sat
					out.Solver.Unsat += st.Unsat
					out.Solver.Unknown += st.Unknown
					out.Solver.Errors += st.Errors
					out.Solver.TotalTime += st.TotalTime
					if st.MaxTime > out.Solver.MaxTime {
						out.Solver.MaxTime = st.MaxTime
					}
					for f := range w.fnSeen {
						fnSeen[fmt.Sprintf("%s (%s)", f.String(), e.fnPos(f))] = true
					}
					for f := range w.fnIntercepted {
						fnIc[f.String()] = true
					}
					for a := range w.assumptions {
						assumptions[a] = true
					}
					out.TermCount += int(w.tt.nextID)
					mu.Unlock()
					w.solver.Close()
				}
			}()
			for {
				mu.Lock()
				for len(work) == 0 && active > 0 && !stop {
					cond.Wait()
				}
				if stop || (len(work) == 0 && active == 0) {
					mu.Unlock()
					cond.Broadcast()
					return
				}
				item := work[len(work)-1]
				work = work[:len(work)-1]
				active++
				mu.Unlock()

				if w == nil {
					var err error
					w, err = e.newWorker(id)
					if err != nil {
						fmt.Fprintln(os.Stderr, "worker:", err)
						mu.Lock()
						active--
						stop = true
						out.Ends["engine-error"]++
						out.Details["cannot start solver: "+err.Error()]++
						mu.Unlock()
						cond.Broadcast()
						return
					}
				}
				if w.tt.nextID > 3000000 {
					w.resetTerms()
				}
				res, nwk := w.runPath(entry, item)

				mu.Lock()
				active--
				out.Paths++
				out.Ends[res.End]++
				if res.End != "ok" && res.End != "assume" && res.End != "panic" && res.End != "violation-stop" {
					d := res.Detail
					if len(d) > 700 {
						d = d[:700]
					}
					out.Details[res.End+": "+d]++
				}
				out.Violations = append(out.Violations, res.Violations...)
				for _, wl := range res.Witnesses {
					out.Witnesses[wl]++
				}
				for k, n := range res.forkSites {
					out.Details["fork: "+k] += n
				}
				for l, n := range res.Checks {
					out.Checks[l] += n
				}
				out.Obligations += res.obligations
				out.Discharged += res.discharged
				out.ObligUnknown += res.obligationsUnknown
				out.Decisions += res.Decisions
				out.Steps += res.Steps
				out.Unknowns += res.unknowns
				if res.End == "ok" && res.modelInputs != nil && len(out.WitnessRuns) < 64 {
					out.WitnessRuns = append(out.WitnessRuns, witnessRun{Inputs: res.modelInputs, Observes: res.observeVals, End: res.End})
				}
				work = append(work, nwk...)
				if e.cfg.MaxPaths > 0 && out.Paths >= e.cfg.MaxPaths && len(work) > 0 {
					stop = true
					out.Ends["bound"]++
					out.Details[fmt.Sprintf("bound: path budget %d exhausted with %d work items pending", e.cfg.MaxPaths, len(work))]++
				}
				if e.cfg.StopOnViolation && len(out.Violations) > 0 {
					stop = true
				}
				if len(out.Violations) >= 300 && !stop {
					// plenty of counterexamples to replay: no need to finish the exploration
					stop = true
					out.Details["stopped early: 300 violations collected"]++
				}
				mu.Unlock()
				cond.Broadcast()
			}
		}(i)
	}
	wg.Wait()
	for f := range fnSeen {
		out.Functions = append(out.Functions, f)
	}
	sort.Strings(out.Functions)
	for f := range fnIc {
		out.Intercepts = append(out.Intercepts, f)
	}
	sort.Strings(out.Intercepts)
	for a := range assumptions {
		out.Assumptions = append(out.Assumptions, a)
	}
	sort.Strings(out.Assumptions)
	out.Wall = time.Since(start)
	return out
}

func (e *Engine) fnPos(f *ssa.Function) string {
	if f.Pos() == 0 {
		return "-"
	}
	ps := e.prog.Fset.Position(f.Pos())
	fn := ps.Filename
	if strings.HasPrefix(fn, e.repoDir+"/") {
		fn = fn[len(e.repoDir)+1:]
	} else if i := strings.LastIndex(fn, "/src/"); i >= 0 {
		fn = "$GOROOT/" + fn[i+5:]
	} else if i := strings.LastIndex(fn, "/pkg/mod/"); i >= 0 {
		fn = "$MOD/" + fn[i+9:]
	}
	return fmt.Sprintf("%s:%d", fn, ps.Line)
}

func (e *Engine) newWorker(id int) (*Worker, error) {
	s, err := NewSolver(e.cfg.Solver, e.cfg.TimeoutMS)
	if err != nil {
		return nil, err
	}
	w := &Worker{id: id, eng: e, tt: NewTermTab(), solver: s,
		stdGlobals: map[*ssa.Global]*Value{}, stdInited: map[*ssa.Package]bool{},
		fnSeen: map[*ssa.Function]bool{}, fnIntercepted: map[*ssa.Function]bool{}, assumptions: map[string]bool{}}
	return w, nil
}

func (w *Worker) resetTerms() {
	// Terms held by shared std globals stay valid objects; only sharing is lost.
	old := w.tt
	w.tt = NewTermTab()
	w.tt.nextID = old.nextID // keep ids unique for solver definitions
	w.tt.tru, w.tt.fls = old.tru, old.fls
	w.tt.tab[termKey{OpConst, SBool, -1, -1, -1, 1, ""}] = old.tru
	w.tt.tab[termKey{OpConst, SBool, -1, -1, -1, 0, ""}] = old.fls
}
