package main

import (
	"fmt"
	"go/constant"
	"go/token"
	"go/types"
	"math"
	"math/big"
	"unicode/utf8"
	"unsafe"

	"golang.org/x/tools/go/ssa"
)

// SymPtr is the address of a slice/array element at a symbolic index
// (only created for scalar element types).
type SymPtr struct {
	back Slice
	idx  *Term // 64-bit, already bounds-checked
}

// Wide is the content of a cell of a wide-element array (int16, float64, ...)
// that is currently aliased by a narrower reinterpreting view created with
// unsafe.Slice: the real storage lives in the view's cells (little-endian).
type Wide struct {
	tt      *TermTab
	view    Slice // the narrow view
	off     int   // index of the first part in view
	n       int   // number of parts
	isFloat bool
	f32     bool
	r       *Run
}

func (w Wide) val() Value {
	t := cellTerm(w.view[w.off])
	for b := 1; b < w.n; b++ {
		t = w.tt.Concat(cellTerm(w.view[w.off+b]), t)
	}
	if w.isFloat {
		return w.r.floatFromBits(t, int(t.sort))
	}
	return t
}

func (w Wide) set(v Value) {
	var bits *Term
	switch x := v.(type) {
	case *Term:
		bits = x
	case Float:
		width := 64
		if w.f32 {
			width = 32
		}
		bits = w.r.floatBits(x, width)
	case Wide:
		w.set(x.val())
		return
	default:
		panic(fmt.Sprintf("Wide.set: %T", v))
	}
	pw := int(bits.sort) / w.n
	for b := 0; b < w.n; b++ {
		setCell(&w.view[w.off+b], w.tt.Extract(bits, b*pw+pw-1, b*pw))
	}
}

// cellTerm reads a scalar cell as a term (resolving Wide cells).
func cellTerm(v Value) *Term {
	switch x := v.(type) {
	case *Term:
		return x
	case Wide:
		return x.val().(*Term)
	}
	panic(fmt.Sprintf("cellTerm: %T", v))
}

// setCell overwrites a cell, writing through Wide cells.
func setCell(p *Value, v Value) {
	if w, ok := (*p).(Wide); ok {
		w.set(v)
		return
	}
	if w, ok := v.(Wide); ok {
		v = w.val()
	}
	*p = v
}

func (r *Run) constValue(c *ssa.Const) Value {
	if c.Value == nil {
		return r.zero(c.Type())
	}
	t := c.Type()
	if tp, ok := t.(*types.TypeParam); ok {
		_ = tp
		panic("const of type param")
	}
	if b, ok := t.Underlying().(*types.Basic); ok {
		switch {
		case b.Info()&types.IsBoolean != 0:
			return r.tt.Bool(constant.BoolVal(c.Value))
		case b.Info()&types.IsInteger != 0:
			s := sortOf(t)
			if b.Kind() == types.UntypedRune {
				s = 32
			}
			v := constant.ToInt(c.Value)
			if i, ok := constant.Int64Val(v); ok {
				return r.tt.Const(s, uint64(i))
			}
			u, _ := constant.Uint64Val(v)
			return r.tt.Const(s, u)
		case b.Info()&types.IsFloat != 0:
			f, _ := constant.Float64Val(c.Value)
			return mkFloat(f, b.Kind() == types.Float32)
		case b.Info()&types.IsString != 0:
			if c.Value.Kind() == constant.String {
				return constant.StringVal(c.Value)
			}
			i, _ := constant.Int64Val(c.Value)
			return string(rune(i))
		case b.Info()&types.IsComplex != 0:
			re, _ := constant.Float64Val(constant.Real(c.Value))
			im, _ := constant.Float64Val(constant.Imag(c.Value))
			return Tuple{mkFloat(re, false), mkFloat(im, false)}
		}
	}
	panic(fmt.Sprintf("constValue: %v : %v", c, t))
}

func (r *Run) toInt64(t *Term, typ types.Type) *Term {
	if t.sort == 64 {
		return t
	}
	if isSigned(typ) {
		return r.tt.SExt(t, 64)
	}
	return r.tt.ZExt(t, 64)
}

// ptrOf turns any pointer-like value into a concrete *Value.
func (r *Run) ptrOf(fr *frame, v Value) *Value {
	switch p := v.(type) {
	case *Value:
		return p
	case SymPtr:
		i := r.concretizeInt(fr, p.idx, false)
		return &p.back[i]
	case UPtr:
		if len(p.back) == 0 {
			fr.unsupported("empty unsafe pointer")
		}
		return &p.back[0]
	}
	fr.unsupported("ptrOf %T", v)
	return nil
}

func (r *Run) checkSort(fr *frame, T types.Type, v Value) {
	if t, ok := v.(*Term); ok {
		if b, ok := T.Underlying().(*types.Basic); ok && b.Info()&(types.IsInteger|types.IsBoolean) != 0 {
			if sortOf(T) != t.sort {
				fr.unsupported("type-punned memory access: cell holds %v, accessed as %v", t.sort, T)
			}
		} else if _, isTP := T.Underlying().(*types.Basic); isTP {
			fr.unsupported("type-punned memory access: cell holds int term, accessed as %v", T)
		}
	}
}

func (r *Run) load(fr *frame, T types.Type, addr Value) Value {
	switch p := addr.(type) {
	case *Value:
		if p == nil {
			fr.rtPanic("nil", "invalid memory address or nil pointer dereference")
		}
		v := *p
		r.checkSort(fr, T, v)
		if r.eng.cfg.Race {
			r.raceAccess(fr, p, false)
		}
		return copyVal(v)
	case SymPtr:
		n := len(p.back)
		if r.eng.cfg.Race {
			for i := range p.back {
				r.raceAccess(fr, &p.back[i], false)
			}
		}
		res := cellTerm(p.back[n-1])
		for i := n - 2; i >= 0; i-- {
			res = r.tt.Ite(r.tt.Eq(p.idx, r.tt.Const(64, uint64(i))), cellTerm(p.back[i]), res)
		}
		return res
	case UPtr:
		if len(p.back) == 0 {
			fr.unsupported("load through empty unsafe pointer")
		}
		v := p.back[0]
		r.checkSort(fr, T, v)
		return copyVal(v)
	}
	fr.unsupported("load through %T", addr)
	return nil
}

func (r *Run) storeInto(T types.Type, addr *Value, v Value) {
	switch T := T.Underlying().(type) {
	case *types.Struct:
		lhs, ok := (*addr).(Struct)
		if !ok {
			*addr = copyVal(v)
			return
		}
		rhs := v.(Struct)
		for i := range lhs {
			r.storeInto(T.Field(i).Type(), &lhs[i], rhs[i])
		}
	case *types.Array:
		lhs, ok := (*addr).(Array)
		if !ok {
			*addr = copyVal(v)
			return
		}
		rhs := v.(Array)
		for i := range lhs {
			r.storeInto(T.Elem(), &lhs[i], rhs[i])
		}
	default:
		setCell(addr, v)
	}
}

func (r *Run) store(fr *frame, T types.Type, addr Value, v Value) {
	switch p := addr.(type) {
	case *Value:
		if p == nil {
			fr.rtPanic("nil", "invalid memory address or nil pointer dereference")
		}
		r.checkSort(fr, T, *p)
		if r.eng.cfg.Race {
			r.raceAccess(fr, p, true)
		}
		r.storeInto(T, p, v)
		r.noteWrite(fr, p)
	case SymPtr:
		nv := v.(*Term)
		if r.eng.cfg.Race {
			for i := range p.back {
				r.raceAccess(fr, &p.back[i], true)
			}
		}
		for i := range p.back {
			old := cellTerm(p.back[i])
			setCell(&p.back[i], r.tt.Ite(r.tt.Eq(p.idx, r.tt.Const(64, uint64(i))), nv, old))
		}
	case UPtr:
		if len(p.back) == 0 {
			fr.unsupported("store through empty unsafe pointer")
		}
		r.checkSort(fr, T, p.back[0])
		r.storeInto(T, &p.back[0], v)
	default:
		fr.unsupported("store through %T", addr)
	}
}

func isScalarTermType(t types.Type) bool {
	b, ok := t.Underlying().(*types.Basic)
	return ok && b.Info()&(types.IsInteger|types.IsBoolean) != 0
}

func onlyUnsafeConverts(instr *ssa.IndexAddr) bool {
	refs := instr.Referrers()
	if refs == nil || len(*refs) == 0 {
		return false
	}
	for _, ref := range *refs {
		cv, ok := ref.(*ssa.Convert)
		if !ok {
			return false
		}
		b, ok := cv.Type().Underlying().(*types.Basic)
		if !ok || b.Kind() != types.UnsafePointer {
			return false
		}
	}
	return true
}

func (r *Run) indexAddr(fr *frame, instr *ssa.IndexAddr) Value {
	x := fr.get(instr.X)
	idx := r.toInt64(fr.get(instr.Index).(*Term), instr.Index.Type())
	var back Slice
	var et types.Type
	switch x := x.(type) {
	case Slice:
		back = x
		et = instr.X.Type().Underlying().(*types.Slice).Elem()
	case *Value:
		if x == nil {
			fr.rtPanic("nil", "invalid memory address or nil pointer dereference")
		}
		back = Slice((*x).(Array))
		et = deref(instr.X.Type()).Underlying().(*types.Array).Elem()
	case UPtr:
		// pointer to array obtained via unsafe; treat back as the array
		back = x.back
		et = deref(instr.X.Type()).Underlying().(*types.Array).Elem()
	default:
		fr.unsupported("IndexAddr on %T", x)
	}
	n := len(back)
	if idx.IsConst() {
		i := int64(idx.val)
		if i < 0 || i >= int64(n) {
			fr.rtPanic("index", fmt.Sprintf("index out of range [%d] with length %d", i, n))
		}
		if onlyUnsafeConverts(instr) {
			return UPtr{back: back[i:], elem: et}
		}
		return &back[i]
	}
	inb := r.tt.Cmp(OpULt, idx, r.tt.Const(64, uint64(n)))
	if !r.branch(fr, inb) {
		fr.rtPanic("index", fmt.Sprintf("index out of range [symbolic] with length %d", n))
	}
	if n == 1 {
		return &back[0]
	}
	if isScalarTermType(et) && !onlyUnsafeConverts(instr) && n <= r.eng.cfg.MaxIte {
		return SymPtr{back: back, idx: idx}
	}
	i := r.concretizeInt(fr, idx, false)
	if onlyUnsafeConverts(instr) {
		return UPtr{back: back[i:], elem: et}
	}
	return &back[i]
}

func (r *Run) index(fr *frame, instr *ssa.Index) Value {
	x := fr.get(instr.X)
	idx := r.toInt64(fr.get(instr.Index).(*Term), instr.Index.Type())
	switch x := x.(type) {
	case Array:
		n := len(x)
		if !r.branch(fr, r.tt.Cmp(OpULt, idx, r.tt.Const(64, uint64(n)))) {
			fr.rtPanic("index", fmt.Sprintf("index out of range with length %d", n))
		}
		if idx.IsConst() {
			return copyVal(x[idx.val])
		}
		if isTermCell(x[0]) {
			return r.load(fr, nil2(instr.Type()), SymPtr{back: Slice(x), idx: idx})
		}
		return copyVal(x[r.concretizeInt(fr, idx, false)])
	case string:
		n := len(x)
		if !r.branch(fr, r.tt.Cmp(OpULt, idx, r.tt.Const(64, uint64(n)))) {
			fr.rtPanic("index", fmt.Sprintf("index out of range with length %d", n))
		}
		i := r.concretizeInt(fr, idx, false)
		return r.tt.Const(8, uint64(x[i]))
	}
	fr.unsupported("Index on %T", x)
	return nil
}

func nil2(t types.Type) types.Type { return t }

func isTermCell(v Value) bool {
	switch x := v.(type) {
	case *Term:
		return true
	case Wide:
		return !x.isFloat
	}
	return false
}

func (r *Run) slice(fr *frame, instr *ssa.Slice, x, lo, hi, max Value) Value {
	var n, c int
	var back Slice
	isStr := false
	var str string
	switch x := x.(type) {
	case Slice:
		back = x
		n, c = len(x), cap(x)
	case string:
		isStr = true
		str = x
		n, c = len(x), len(x)
	case *Value:
		if x == nil {
			fr.rtPanic("nil", "invalid memory address or nil pointer dereference")
		}
		back = Slice((*x).(Array))
		n, c = len(back), len(back)
	case UPtr:
		back = x.back
		n, c = len(back), cap(back)
	default:
		fr.unsupported("slice of %T", x)
	}
	get := func(v Value, vt ssa.Value, def int) *Term {
		if v == nil {
			return r.tt.Const(64, uint64(def))
		}
		return r.toInt64(v.(*Term), vt.Type())
	}
	l := get(lo, instr.Low, 0)
	h := get(hi, instr.High, n)
	m := get(max, instr.Max, c)
	tt := r.tt
	ok := tt.And(tt.And(tt.Cmp(OpSLe, tt.Const(64, 0), l), tt.Cmp(OpSLe, l, h)), tt.And(tt.Cmp(OpSLe, h, m), tt.Cmp(OpSLe, m, tt.Const(64, uint64(c)))))
	if !r.branch(fr, ok) {
		fr.rtPanic("slice", fmt.Sprintf("slice bounds out of range [%s:%s:%s] with capacity %d", l, h, m, c))
	}
	li := int(r.concretizeInt(fr, l, true))
	hi2 := int(r.concretizeInt(fr, h, true))
	mi := int(r.concretizeInt(fr, m, true))
	if isStr {
		return str[li:hi2]
	}
	if back == nil {
		return Slice(nil)
	}
	return back[li:hi2:mi]
}

// ---- equality

func (r *Run) valEq(fr *frame, x, y Value) *Term {
	switch x := x.(type) {
	case *Term:
		yt := y.(*Term)
		if x.sort != yt.sort {
			fr.unsupported("valEq sort mismatch")
		}
		return r.tt.Eq(x, yt)
	case Float:
		return r.floatCmp(fr, token.EQL, x, y.(Float))
	case string:
		return r.tt.Bool(x == y.(string))
	case *Value:
		switch y := y.(type) {
		case *Value:
			return r.tt.Bool(x == y)
		case UPtr:
			return r.tt.Bool(len(y.back) > 0 && x == &y.back[0])
		}
	case UPtr:
		switch y := y.(type) {
		case *Value:
			return r.tt.Bool(len(x.back) > 0 && y == &x.back[0])
		case UPtr:
			return r.tt.Bool(len(x.back) > 0 && len(y.back) > 0 && &x.back[0] == &y.back[0])
		}
	case *Map:
		return r.tt.Bool(x == y.(*Map))
	case *Chan:
		return r.tt.Bool(x == y.(*Chan))
	case Struct:
		ys := y.(Struct)
		res := r.tt.tru
		for i := range x {
			res = r.tt.And(res, r.valEq(fr, x[i], ys[i]))
		}
		return res
	case Array:
		ys := y.(Array)
		res := r.tt.tru
		for i := range x {
			res = r.tt.And(res, r.valEq(fr, x[i], ys[i]))
		}
		return res
	case Iface:
		yi := y.(Iface)
		if x.T == nil || yi.T == nil {
			return r.tt.Bool(x.T == nil && yi.T == nil)
		}
		if !types.Identical(x.T, yi.T) {
			return r.tt.fls
		}
		return r.valEq(fr, x.V, yi.V)
	case Slice:
		// only comparison with nil is legal
		ys := y.(Slice)
		if ys == nil {
			return r.tt.Bool(x == nil)
		}
		if x == nil {
			return r.tt.Bool(ys == nil)
		}
	case *Closure:
		if yc, ok := y.(*Closure); ok {
			return r.tt.Bool(x == yc)
		}
		if yf, ok := y.(*ssa.Function); ok {
			return r.tt.Bool(x == nil && yf == nil)
		}
	case *ssa.Function:
		if yc, ok := y.(*Closure); ok {
			return r.tt.Bool(x == nil && yc == nil)
		}
		if yf, ok := y.(*ssa.Function); ok {
			return r.tt.Bool(x == yf)
		}
	case Tuple: // complex
		ys := y.(Tuple)
		return r.tt.And(r.valEq(fr, x[0], ys[0]), r.valEq(fr, x[1], ys[1]))
	}
	fr.unsupported("valEq %T vs %T", x, y)
	return nil
}

// ---- floats

func (r *Run) freshBool(prefix string) *Term {
	r.fresh++
	return r.tt.Var(SBool, fmt.Sprintf("$%s%d", prefix, r.fresh))
}
func (r *Run) freshBV(prefix string, s Sort) *Term {
	r.fresh++
	return r.tt.Var(s, fmt.Sprintf("$%s%d", prefix, r.fresh))
}

func (r *Run) realOf(f Float) *Term {
	if f.t != nil {
		return f.t
	}
	if f.unk {
		return nil
	}
	rat := ratOfFloat(f.v)
	if rat == nil {
		return nil
	}
	return r.tt.RConst(rat)
}

func (r *Run) floatCmp(fr *frame, op token.Token, x, y Float) *Term {
	if x.concrete() && y.concrete() {
		a, b := x.v, y.v
		var res bool
		switch op {
		case token.EQL:
			res = a == b
		case token.NEQ:
			res = a != b
		case token.LSS:
			res = a < b
		case token.LEQ:
			res = a <= b
		case token.GTR:
			res = a > b
		case token.GEQ:
			res = a >= b
		}
		return r.tt.Bool(res)
	}
	if x.t != nil || y.t != nil {
		a, b := r.realOf(x), r.realOf(y)
		if a != nil && b != nil {
			tt := r.tt
			switch op {
			case token.EQL:
				return tt.Eq(a, b)
			case token.NEQ:
				return tt.Not(tt.Eq(a, b))
			case token.LSS:
				return tt.RBin(OpRLt, a, b)
			case token.LEQ:
				return tt.RBin(OpRLe, a, b)
			case token.GTR:
				return tt.RBin(OpRLt, b, a)
			case token.GEQ:
				return tt.RBin(OpRLe, b, a)
			}
		}
	}
	r.unknownFloatBranches++
	return r.freshBool("fcmp")
}

func (r *Run) floatBin(fr *frame, op token.Token, x, y Float) Float {
	f32 := x.f32
	if x.concrete() && y.concrete() {
		a, b := x.v, y.v
		var v float64
		if f32 {
			fa, fb := float32(a), float32(b)
			var fv float32
			switch op {
			case token.ADD:
				fv = fa + fb
			case token.SUB:
				fv = fa - fb
			case token.MUL:
				fv = fa * fb
			case token.QUO:
				fv = fa / fb
			default:
				fr.unsupported("float op %v", op)
			}
			return Float{v: float64(fv), f32: true}
		}
		switch op {
		case token.ADD:
			v = a + b
		case token.SUB:
			v = a - b
		case token.MUL:
			v = a * b
		case token.QUO:
			v = a / b
		default:
			fr.unsupported("float op %v", op)
		}
		return Float{v: v}
	}
	if x.t != nil || y.t != nil {
		a, b := r.realOf(x), r.realOf(y)
		if a != nil && b != nil {
			var o Op
			switch op {
			case token.ADD:
				o = OpRAdd
			case token.SUB:
				o = OpRSub
			case token.MUL:
				o = OpRMul
			case token.QUO:
				o = OpRDiv
			default:
				fr.unsupported("float op %v", op)
			}
			return Float{t: r.tt.RBin(o, a, b), f32: f32}
		}
	}
	return Float{unk: true, f32: f32}
}

// ---- binop / unop

func (r *Run) binop(fr *frame, op token.Token, xt types.Type, x, y Value, yt types.Type) Value {
	tt := r.tt
	switch xv := x.(type) {
	case *Term:
		yv, ok := y.(*Term)
		if !ok {
			fr.unsupported("binop term vs %T", y)
		}
		if xv.sort == SBool {
			switch op {
			case token.EQL:
				return tt.Eq(xv, yv)
			case token.NEQ:
				return tt.Not(tt.Eq(xv, yv))
			case token.AND, token.LAND:
				return tt.And(xv, yv)
			case token.OR, token.LOR:
				return tt.Or(xv, yv)
			}
			fr.unsupported("bool binop %v", op)
		}
		signed := isSigned(xt)
		switch op {
		case token.SHL, token.SHR:
			// shift count: unsigned (or signed, non-negative)
			cnt := yv
			if isSigned(yt) {
				if !r.branch(fr, tt.Cmp(OpSLe, tt.Const(cnt.sort, 0), cnt)) {
					fr.rtPanic("shift", "negative shift amount")
				}
			}
			w := xv.sort
			var c2 *Term
			if cnt.sort > w {
				big := tt.Cmp(OpULe, tt.Const(cnt.sort, uint64(w)), cnt)
				c2 = tt.Ite(big, tt.Const(w, uint64(w)), tt.Extract(cnt, int(w)-1, 0))
			} else {
				c2 = tt.ZExt(cnt, w)
			}
			if op == token.SHL {
				return tt.Bin(OpShl, xv, c2)
			}
			if signed {
				return tt.Bin(OpAShr, xv, c2)
			}
			return tt.Bin(OpLShr, xv, c2)
		}
		if xv.sort != yv.sort {
			fr.unsupported("binop sort mismatch %v %v (%v)", xv.sort, yv.sort, op)
		}
		switch op {
		case token.ADD:
			return tt.Bin(OpAdd, xv, yv)
		case token.SUB:
			return tt.Bin(OpSub, xv, yv)
		case token.MUL:
			return tt.Bin(OpMul, xv, yv)
		case token.QUO, token.REM:
			if !r.branch(fr, tt.Not(tt.Eq(yv, tt.Const(yv.sort, 0)))) {
				fr.rtPanic("divide", "integer divide by zero")
			}
			if op == token.QUO {
				if signed {
					return tt.Bin(OpSDiv, xv, yv)
				}
				return tt.Bin(OpUDiv, xv, yv)
			}
			if signed {
				return tt.Bin(OpSRem, xv, yv)
			}
			return tt.Bin(OpURem, xv, yv)
		case token.AND:
			return tt.Bin(OpBAnd, xv, yv)
		case token.OR:
			return tt.Bin(OpBOr, xv, yv)
		case token.XOR:
			return tt.Bin(OpBXor, xv, yv)
		case token.AND_NOT:
			return tt.Bin(OpBAnd, xv, tt.BNot(yv))
		case token.EQL:
			return tt.Eq(xv, yv)
		case token.NEQ:
			return tt.Not(tt.Eq(xv, yv))
		case token.LSS:
			if signed {
				return tt.Cmp(OpSLt, xv, yv)
			}
			return tt.Cmp(OpULt, xv, yv)
		case token.LEQ:
			if signed {
				return tt.Cmp(OpSLe, xv, yv)
			}
			return tt.Cmp(OpULe, xv, yv)
		case token.GTR:
			if signed {
				return tt.Cmp(OpSLt, yv, xv)
			}
			return tt.Cmp(OpULt, yv, xv)
		case token.GEQ:
			if signed {
				return tt.Cmp(OpSLe, yv, xv)
			}
			return tt.Cmp(OpULe, yv, xv)
		}
	case Float:
		yv := y.(Float)
		switch op {
		case token.EQL, token.NEQ, token.LSS, token.LEQ, token.GTR, token.GEQ:
			return r.floatCmp(fr, op, xv, yv)
		}
		return r.floatBin(fr, op, xv, yv)
	case string:
		yv := y.(string)
		switch op {
		case token.ADD:
			return xv + yv
		case token.EQL:
			return tt.Bool(xv == yv)
		case token.NEQ:
			return tt.Bool(xv != yv)
		case token.LSS:
			return tt.Bool(xv < yv)
		case token.LEQ:
			return tt.Bool(xv <= yv)
		case token.GTR:
			return tt.Bool(xv > yv)
		case token.GEQ:
			return tt.Bool(xv >= yv)
		}
	}
	switch op {
	case token.EQL:
		return r.valEq(fr, x, y)
	case token.NEQ:
		return tt.Not(r.valEq(fr, x, y))
	}
	fr.unsupported("binop %v on %T, %T", op, x, y)
	return nil
}

func (r *Run) unop(fr *frame, instr *ssa.UnOp, x Value) Value {
	switch instr.Op {
	case token.ARROW:
		return r.chanRecv(fr, x, instr.CommaOk, instr.X.Type().Underlying().(*types.Chan).Elem())
	case token.SUB:
		switch x := x.(type) {
		case *Term:
			return r.tt.Neg(x)
		case Float:
			if x.concrete() {
				return Float{v: -x.v, f32: x.f32}
			}
			if x.t != nil {
				return Float{t: r.tt.RNeg(x.t), f32: x.f32}
			}
			return x
		}
	case token.MUL:
		return r.load(fr, deref(instr.X.Type()), x)
	case token.NOT:
		return r.tt.Not(x.(*Term))
	case token.XOR:
		return r.tt.BNot(x.(*Term))
	}
	fr.unsupported("unop %v on %T", instr.Op, x)
	return nil
}

// ---- conversions

func (r *Run) conv(fr *frame, instr *ssa.Convert, tdst, tsrc types.Type, x Value) Value {
	ut_dst := tdst.Underlying()
	ut_src := tsrc.Underlying()

	// pointers and unsafe.Pointer
	if b, ok := ut_dst.(*types.Basic); ok && b.Kind() == types.UnsafePointer {
		switch x := x.(type) {
		case *Value, UPtr:
			if up, ok := x.(UPtr); ok {
				up.as = nil
				return up
			}
			return x
		case SymPtr:
			return r.ptrOf(fr, x)
		}
		fr.unsupported("convert %T to unsafe.Pointer", x)
	}
	if _, ok := ut_dst.(*types.Pointer); ok {
		switch x := x.(type) {
		case UPtr:
			x.as = deref(tdst)
			return x
		case *Value:
			return x
		}
		fr.unsupported("convert %T to pointer", x)
	}

	switch ut_src := ut_src.(type) {
	case *types.Slice:
		// []byte/[]rune -> string
		if isString(ut_dst) {
			xs := x.(Slice)
			eb := ut_src.Elem().Underlying().(*types.Basic)
			if eb.Kind() == types.Byte || eb.Kind() == types.Uint8 {
				b := make([]byte, len(xs))
				for i, e := range xs {
					b[i] = byte(r.concretizeInt(fr, e.(*Term), false))
				}
				return string(b)
			}
			rs := make([]rune, len(xs))
			for i, e := range xs {
				rs[i] = rune(r.concretizeInt(fr, e.(*Term), true))
			}
			return string(rs)
		}
		if _, ok := ut_dst.(*types.Slice); ok {
			return x
		}
		if at, ok := ut_dst.(*types.Array); ok {
			xs := x.(Slice)
			if int64(len(xs)) < at.Len() {
				fr.rtPanic("slice", "cannot convert slice to array: too short")
			}
			a := make(Array, at.Len())
			for i := range a {
				a[i] = copyVal(xs[i])
			}
			return a
		}
	case *types.Basic:
		if isString(ut_src) {
			s := x.(string)
			switch ud := ut_dst.(type) {
			case *types.Slice:
				eb := ud.Elem().Underlying().(*types.Basic)
				if eb.Kind() == types.Byte || eb.Kind() == types.Uint8 {
					out := make(Slice, len(s))
					for i := 0; i < len(s); i++ {
						out[i] = r.tt.Const(8, uint64(s[i]))
					}
					return out
				}
				var out Slice
				for _, c := range s {
					out = append(out, r.tt.Const(32, uint64(c)))
				}
				if out == nil {
					out = Slice{}
				}
				return out
			case *types.Basic:
				if isString(ud) {
					return s
				}
			}
			fr.unsupported("convert string to %v", tdst)
		}
		db, ok := ut_dst.(*types.Basic)
		if !ok {
			fr.unsupported("convert %v to %v", tsrc, tdst)
		}
		if ut_src.Kind() == types.UnsafePointer && db.Kind() == types.Uintptr {
			// address as integer: only nil-ness is meaningful
			// address as integer: the engine cell's own address, halved so that consecutive
			// elements of one array are 8 bytes apart (engine cells are 16-byte interface values);
			// distinct objects get distinct, non-overlapping ranges, which is all that
			// overlap/aliasing checks (gonum) look at
			switch p := x.(type) {
			case *Value:
				if p == nil {
					return r.tt.Const(64, 0)
				}
				return r.tt.Const(64, uint64(uintptr(unsafe.Pointer(p))/2))
			case UPtr:
				if len(p.back) == 0 {
					return r.tt.Const(64, 0xc000200000)
				}
				return r.tt.Const(64, uint64(uintptr(unsafe.Pointer(&p.back[0]))/2))
			}
		}
		switch xv := x.(type) {
		case *Term:
			switch {
			case db.Info()&types.IsInteger != 0:
				ds := sortOf(tdst)
				if xv.sort == SBool {
					fr.unsupported("bool to int")
				}
				if isSigned(tsrc) {
					return r.tt.SExt(xv, ds)
				}
				return r.tt.ZExt(xv, ds)
			case db.Info()&types.IsFloat != 0:
				f32 := db.Kind() == types.Float32
				if xv.IsConst() {
					if isSigned(tsrc) {
						return mkFloat(float64(signExt(xv.val, xv.sort)), f32)
					}
					return mkFloat(float64(xv.val), f32)
				}
				if r.eng.cfg.RealFloats {
					if xv.op == OpVar && r.realBacked[xv.name] {
						// a sample that is only ever read as a number: its value is a real
						// variable ranging over the integer type's interval (see vSymU16R)
						sg := isSigned(tsrc)
						nm := xv.name + "$u"
						lo, hi := new(big.Rat), new(big.Rat).SetInt64(int64(mask(xv.sort)))
						if sg {
							nm = xv.name + "$s"
							lo = new(big.Rat).SetInt64(-(int64(1) << (uint(xv.sort) - 1)))
							hi = new(big.Rat).SetInt64((int64(1) << (uint(xv.sort) - 1)) - 1)
						}
						rv := r.tt.Var(SReal, nm)
						r.addPC(r.tt.And(r.tt.RBin(OpRLe, r.tt.RConst(lo), rv), r.tt.RBin(OpRLe, rv, r.tt.RConst(hi))))
						r.addPC(r.tt.UF("is_int", SBool, rv, nil))
						return Float{t: rv, f32: f32}
					}
					return Float{t: r.tt.ToReal(xv, isSigned(tsrc)), f32: f32}
				}
				return Float{unk: true, f32: f32}
			case db.Info()&types.IsString != 0:
				c := r.concretizeInt(fr, xv, true)
				return string(rune(c))
			}
		case Float:
			switch {
			case db.Info()&types.IsFloat != 0:
				f32 := db.Kind() == types.Float32
				if xv.concrete() {
					return mkFloat(xv.v, f32)
				}
				if f32 && !xv.f32 && xv.t != nil && !r.eng.cfg.RealFloats {
					// narrowing conversion of an opaque float: uninterpreted function of the value
					return Float{t: r.tt.UF("cvt64to32", SReal, xv.t, nil), f32: true}
				}
				xv.f32 = f32
				return xv
			case db.Info()&types.IsInteger != 0:
				ds := sortOf(tdst)
				if xv.concrete() {
					return r.tt.Const(ds, floatToInt(xv.v, db.Kind()))
				}
				var iv *Term
				if lo, hi, ok := realBounds(xv.t, 0); xv.t != nil && ok {
					// the value's magnitude is bounded by the term's structure: a narrower
					// fresh variable, sign-extended, is enough (and far easier on the solver)
					m := new(big.Rat).Abs(lo)
					if h := new(big.Rat).Abs(hi); h.Cmp(m) > 0 {
						m = h
					}
					bits := new(big.Int).Quo(m.Num(), m.Denom()).BitLen() + 2
					if bits < int(ds) {
						iv = r.tt.SExt(r.freshBV("f2i", Sort(bits)), ds)
					}
				}
				if iv == nil {
					iv = r.freshBV("f2i", ds)
				}
				if xv.t != nil {
					// truncation toward zero, defined by its real-arithmetic characterisation
					// (the value is assumed to lie in the range of the destination type)
					ri := r.tt.ToReal(iv, isSigned(tdst))
					one := r.tt.RConst(new(big.Rat).SetInt64(1))
					zero := r.tt.RConst(new(big.Rat))
					pos := r.tt.And(r.tt.RBin(OpRLe, ri, xv.t), r.tt.RBin(OpRLt, xv.t, r.tt.RBin(OpRAdd, ri, one)))
					neg := r.tt.And(r.tt.RBin(OpRLt, r.tt.RBin(OpRSub, ri, one), xv.t), r.tt.RBin(OpRLe, xv.t, ri))
					r.addPC(r.tt.Ite(r.tt.RBin(OpRLe, zero, xv.t), pos, neg))
					r.noteAssumption("float-to-integer conversion truncates toward zero; values outside the destination type's range are not explored")
				}
				return iv
			}
		}
	}
	if types.Identical(ut_dst, ut_src) {
		return x
	}
	fr.unsupported("convert %v (%T) to %v", tsrc, x, tdst)
	return nil
}

func floatToInt(v float64, k types.BasicKind) uint64 {
	switch k {
	case types.Int:
		return uint64(int(v))
	case types.Int8:
		return uint64(int8(v))
	case types.Int16:
		return uint64(int16(v))
	case types.Int32:
		return uint64(int32(v))
	case types.Int64:
		return uint64(int64(v))
	case types.Uint:
		return uint64(uint(v))
	case types.Uint8:
		return uint64(uint8(v))
	case types.Uint16:
		return uint64(uint16(v))
	case types.Uint32:
		return uint64(uint32(v))
	case types.Uint64:
		return uint64(v)
	case types.Uintptr:
		return uint64(uintptr(v))
	}
	return uint64(int64(v))
}

// ---- maps

func (r *Run) mapFind(fr *frame, m *Map, key Value) *mapEntry {
	if m == nil {
		return nil
	}
	for _, e := range m.entries {
		if e.dead {
			continue
		}
		if r.branch(fr, r.valEq(fr, key, e.k)) {
			return e
		}
	}
	return nil
}

func (r *Run) mapUpdate(fr *frame, m *Map, key, val Value) {
	if r.eng.cfg.Race {
		r.raceTouch(fr, m, true)
	}
	if e := r.mapFind(fr, m, key); e != nil {
		e.v = copyVal(val)
		return
	}
	m.entries = append(m.entries, &mapEntry{k: copyVal(key), v: copyVal(val)})
}

func (r *Run) lookup(fr *frame, instr *ssa.Lookup, x, idx Value) Value {
	switch x := x.(type) {
	case *Map:
		if r.eng.cfg.Race && x != nil {
			r.raceTouch(fr, x, false)
		}
		var v Value
		ok := false
		if e := r.mapFind(fr, x, idx); e != nil {
			v = copyVal(e.v)
			ok = true
		} else {
			v = r.zero(instr.X.Type().Underlying().(*types.Map).Elem())
		}
		if instr.CommaOk {
			return Tuple{v, r.tt.Bool(ok)}
		}
		return v
	case string:
		i := r.toInt64(idx.(*Term), instr.Index.Type())
		if !r.branch(fr, r.tt.Cmp(OpULt, i, r.tt.Const(64, uint64(len(x))))) {
			fr.rtPanic("index", fmt.Sprintf("index out of range with length %d", len(x)))
		}
		return r.tt.Const(8, uint64(x[r.concretizeInt(fr, i, false)]))
	}
	fr.unsupported("lookup on %T", x)
	return nil
}

func (r *Run) rangeIter(fr *frame, x Value, t types.Type) Value {
	switch x := x.(type) {
	case *Map:
		it := &mapIter{m: x}
		if x != nil {
			for _, e := range x.entries {
				if !e.dead {
					it.keys = append(it.keys, e)
				}
			}
			if r.eng.cfg.MapOrders && len(it.keys) > 1 && len(it.keys) <= 3 {
				// explore every iteration order of small maps
				perm := make([]*mapEntry, 0, len(it.keys))
				rest := append([]*mapEntry(nil), it.keys...)
				for len(rest) > 1 {
					k := r.choose(fr, len(rest), "maporder")
					perm = append(perm, rest[k])
					rest = append(rest[:k:k], rest[k+1:]...)
				}
				perm = append(perm, rest[0])
				it.keys = perm
			}
		}
		return it
	case string:
		return &strIter{s: x}
	}
	fr.unsupported("range over %T", x)
	return nil
}

func (r *Run) next(fr *frame, it Value) Value {
	switch it := it.(type) {
	case *mapIter:
		for it.i < len(it.keys) {
			e := it.keys[it.i]
			it.i++
			if e.dead {
				continue
			}
			return Tuple{r.tt.tru, copyVal(e.k), copyVal(e.v)}
		}
		return Tuple{r.tt.fls, nil, nil}
	case *strIter:
		if it.i >= len(it.s) {
			return Tuple{r.tt.fls, r.tt.Const(64, 0), r.tt.Const(32, 0)}
		}
		c, sz := utf8.DecodeRuneInString(it.s[it.i:])
		i := it.i
		it.i += sz
		return Tuple{r.tt.tru, r.tt.Const(64, uint64(i)), r.tt.Const(32, uint64(c))}
	}
	fr.unsupported("next on %T", it)
	return nil
}

// ---- type assertions

func (r *Run) typeAssert(fr *frame, instr *ssa.TypeAssert, itf Iface) Value {
	var v Value
	errs := ""
	if itf.T == nil {
		errs = fmt.Sprintf("interface conversion: interface is nil, not %s", instr.AssertedType)
	} else if idst, ok := instr.AssertedType.Underlying().(*types.Interface); ok {
		v = itf
		if meth, _ := types.MissingMethod(itf.T, idst, true); meth != nil {
			errs = fmt.Sprintf("interface conversion: %v is not %v: missing method %s", itf.T, idst, meth.Name())
		}
	} else if types.Identical(itf.T, instr.AssertedType) {
		v = itf.V
	} else {
		errs = fmt.Sprintf("interface conversion: interface is %s, not %s", itf.T, instr.AssertedType)
	}
	if errs != "" {
		if !instr.CommaOk {
			panic(targetPanic{v: Iface{T: types.Typ[types.String], V: errs}, msg: errs, kind: "typeassert", site: fr.repoSite(), fn: fr.fn.String()})
		}
		return Tuple{r.zero(instr.AssertedType), r.tt.fls}
	}
	if instr.CommaOk {
		return Tuple{v, r.tt.tru}
	}
	return v
}

// ---- builtins

func (r *Run) callBuiltin(fr *frame, pos token.Pos, fn *ssa.Builtin, args []Value) Value {
	tt := r.tt
	switch fn.Name() {
	case "append":
		if len(args) == 1 {
			return args[0]
		}
		s := args[0].(Slice)
		switch t := args[1].(type) {
		case string:
			for i := 0; i < len(t); i++ {
				s = append(s, Value(tt.Const(8, uint64(t[i]))))
			}
			return s
		case Slice:
			if len(t) == 0 {
				return s
			}
			if r.eng.cfg.Race {
				for i := range t {
					r.raceAccess(fr, &t[i], false)
				}
			}
			for _, e := range t {
				s = append(s, copyVal(e))
			}
			return s
		}
		fr.unsupported("append %T", args[1])
	case "copy":
		dst := args[0].(Slice)
		switch src := args[1].(type) {
		case string:
			n := len(dst)
			if len(src) < n {
				n = len(src)
			}
			for i := 0; i < n; i++ {
				dst[i] = tt.Const(8, uint64(src[i]))
			}
			return tt.Const(64, uint64(n))
		case Slice:
			n := len(dst)
			if len(src) < n {
				n = len(src)
			}
			// handle overlap like memmove
			tmp := make([]Value, n)
			for i := 0; i < n; i++ {
				if r.eng.cfg.Race {
					r.raceAccess(fr, &src[i], false)
					r.raceAccess(fr, &dst[i], true)
				}
				tmp[i] = copyVal(src[i])
			}
			for i := 0; i < n; i++ {
				setCell(&dst[i], tmp[i])
			}
			return tt.Const(64, uint64(n))
		}
		fr.unsupported("copy from %T", args[1])
	case "close":
		r.chanClose(fr, args[0])
		return nil
	case "delete":
		m := args[0].(*Map)
		if e := r.mapFind(fr, m, args[1]); e != nil {
			e.dead = true
			// compact
			live := m.entries[:0:0]
			for _, x := range m.entries {
				if !x.dead {
					live = append(live, x)
				}
			}
			m.entries = live
		}
		return nil
	case "print", "println":
		return nil
	case "len":
		switch x := args[0].(type) {
		case string:
			return tt.Const(64, uint64(len(x)))
		case Array:
			return tt.Const(64, uint64(len(x)))
		case *Value:
			if x == nil {
				return tt.Const(64, 0)
			}
			return tt.Const(64, uint64(len((*x).(Array))))
		case Slice:
			return tt.Const(64, uint64(len(x)))
		case *Map:
			if x == nil {
				return tt.Const(64, 0)
			}
			return tt.Const(64, uint64(x.live()))
		case *Chan:
			if x == nil {
				return tt.Const(64, 0)
			}
			return tt.Const(64, uint64(len(x.buf)))
		}
		fr.unsupported("len of %T", args[0])
	case "cap":
		switch x := args[0].(type) {
		case Array:
			return tt.Const(64, uint64(len(x)))
		case *Value:
			if x == nil {
				return tt.Const(64, 0)
			}
			return tt.Const(64, uint64(len((*x).(Array))))
		case Slice:
			return tt.Const(64, uint64(cap(x)))
		case *Chan:
			if x == nil {
				return tt.Const(64, 0)
			}
			return tt.Const(64, uint64(x.capacity))
		}
		fr.unsupported("cap of %T", args[0])
	case "min", "max":
		isMin := fn.Name() == "min"
		sig := fn.Type().(*types.Signature)
		pt := sig.Params().At(0).Type()
		acc := args[0]
		for _, a := range args[1:] {
			switch x := acc.(type) {
			case *Term:
				y := a.(*Term)
				var lt *Term
				if isSigned(pt) {
					lt = tt.Cmp(OpSLt, y, x)
				} else {
					lt = tt.Cmp(OpULt, y, x)
				}
				if !isMin {
					lt = tt.Not(tt.Or(lt, tt.Eq(x, y)))
				}
				acc = tt.Ite(lt, y, x)
			case Float:
				y := a.(Float)
				if x.concrete() && y.concrete() {
					if isMin {
						acc = Float{v: math.Min(x.v, y.v), f32: x.f32}
					} else {
						acc = Float{v: math.Max(x.v, y.v), f32: x.f32}
					}
				} else {
					acc = Float{unk: true, f32: x.f32}
				}
			case string:
				y := a.(string)
				if (isMin && y < x) || (!isMin && y > x) {
					acc = y
				}
			}
		}
		return acc
	case "recover":
		return r.doRecover(fr)
	case "ssa:wrapnilchk":
		recv := args[0]
		if p, ok := recv.(*Value); ok && p == nil {
			fr.rtPanic("nil", "value method called using nil pointer")
		}
		return recv
	case "clear":
		switch x := args[0].(type) {
		case *Map:
			if x != nil {
				x.entries = nil
			}
		case Slice:
			if len(x) > 0 {
				fr.unsupported("clear(slice)")
			}
		}
		return nil
	case "Slice": // unsafe.Slice
		return r.unsafeSlice(fr, args[0], args[1].(*Term))
	case "String", "StringData", "SliceData":
		return r.unsafeBuiltin(fr, fn.Name(), args)
	case "Add":
		fr.unsupported("unsafe.%s", fn.Name())
	}
	fr.unsupported("builtin %s", fn.Name())
	return nil
}

func (r *Run) typeSize(t types.Type) int64 {
	return r.eng.sizes.Sizeof(t)
}

// unsafeSlice implements unsafe.Slice((*T)(unsafe.Pointer(&s[i])), n) as a
// little-endian reinterpreting view. Same element width: aliasing view.
// Different width: a converted copy (writes through it do not propagate).
func (r *Run) unsafeSlice(fr *frame, p Value, n *Term) Value {
	up, ok := p.(UPtr)
	if !ok {
		if pv, ok := p.(*Value); ok && pv != nil {
			// pointer to a single cell
			cnt := r.concretizeInt(fr, n, true)
			if cnt == 1 {
				return Slice{*pv}
			}
		}
		fr.unsupported("unsafe.Slice on %T", p)
	}
	cnt := int(r.concretizeInt(fr, n, true))
	if up.as == nil {
		fr.unsupported("unsafe.Slice on untyped unsafe pointer")
	}
	ssz := int(r.typeSize(up.elem))
	dsz := int(r.typeSize(up.as))
	if ssz == dsz && isFloat(up.elem) == isFloat(up.as) {
		if cnt > cap(up.back) {
			fr.unsupported("unsafe.Slice beyond backing store")
		}
		return up.back[:cnt:cnt]
	}
	nbytes := cnt * dsz
	if nbytes > len(up.back)*ssz {
		// may view up to cap
		if nbytes > cap(up.back)*ssz {
			fr.unsupported("unsafe.Slice beyond backing store (%d bytes of %d)", nbytes, cap(up.back)*ssz)
		}
	}
	src := up.back[:cap(up.back)]
	need := (nbytes + ssz - 1) / ssz
	// an existing narrow view of the same store: alias it
	if w0, ok := src[0].(Wide); ok && dsz < ssz && w0.n == ssz/dsz {
		if w0.off+cnt <= len(w0.view) {
			return w0.view[w0.off : w0.off+cnt : w0.off+cnt]
		}
		fr.unsupported("second unsafe view larger than the first")
	}
	// explode source into bytes (little-endian)
	bytes := make([]*Term, 0, need*ssz)
	for i := 0; i < need; i++ {
		var bits *Term
		switch e := src[i].(type) {
		case *Term:
			bits = e
		case Float:
			bits = r.floatBits(e, ssz*8)
		case Wide:
			switch ev := e.val().(type) {
			case *Term:
				bits = ev
			case Float:
				bits = r.floatBits(ev, ssz*8)
			}
		default:
			fr.unsupported("unsafe.Slice over %T elements", e)
		}
		for b := 0; b < ssz; b++ {
			bytes = append(bytes, r.tt.Extract(bits, b*8+7, b*8))
		}
	}
	out := make(Slice, cnt)
	for i := 0; i < cnt; i++ {
		t := bytes[i*dsz]
		for b := 1; b < dsz; b++ {
			t = r.tt.Concat(bytes[i*dsz+b], t)
		}
		if isFloat(up.as) {
			out[i] = r.floatFromBits(t, dsz*8)
		} else {
			out[i] = t
		}
	}
	if dsz < ssz && ssz%dsz == 0 && !isFloat(up.as) && nbytes == need*ssz {
		// narrow integer view of a wider store: the view holds the storage from now on,
		// the wide cells become write-through aliases (both directions visible)
		k := ssz / dsz
		for i := 0; i < need; i++ {
			src[i] = Wide{tt: r.tt, view: out, off: i * k, n: k, isFloat: isFloat(up.elem), f32: isFloat(up.elem) && ssz == 4, r: r}
		}
		return out
	}
	r.noteAssumption("unsafe.Slice widening/float reinterpretation is modelled as a little-endian converted copy (no write-through); narrowing integer views alias the store")
	return out
}

func (r *Run) floatBits(f Float, width int) *Term {
	if f.concrete() {
		if width == 32 {
			return r.tt.Const(32, uint64(math.Float32bits(float32(f.v))))
		}
		return r.tt.Const(64, math.Float64bits(f.v))
	}
	if f.t != nil && f.t.op == OpUF && f.t.name == fmt.Sprintf("frombits%d", width) {
		return f.t.a
	}
	if f.t != nil {
		return r.tt.UF(fmt.Sprintf("bits%d", width), Sort(width), f.t, nil)
	}
	return r.freshBV("fbits", Sort(width))
}

func (r *Run) floatFromBits(t *Term, width int) Float {
	if t.IsConst() {
		if width == 32 {
			return Float{v: float64(math.Float32frombits(uint32(t.val))), f32: true}
		}
		return Float{v: math.Float64frombits(t.val)}
	}
	if t.op == OpUF && t.name == fmt.Sprintf("bits%d", width) {
		return Float{t: t.a, f32: width == 32}
	}
	return Float{t: r.tt.UF(fmt.Sprintf("frombits%d", width), SReal, t, nil), f32: width == 32}
}

var _ = big.NewInt
