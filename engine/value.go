package main

import (
	"fmt"
	"go/types"
	"math"
	"math/big"
	"sort"
	"strings"

	"golang.org/x/tools/go/ssa"
)

// Value representation (after x/tools/go/ssa/interp):
//
//	*Term            bool and all integer kinds (Bool / BitVec sorts)
//	Float            float32/float64: concrete, unknown, or Real-sorted term
//	string           concrete strings
//	*Value           pointers (nil pointer = (*Value)(nil))
//	Array, Struct    aggregates ([]Value), copied on load/store
//	Slice            []Value with Go's own len/cap/aliasing semantics
//	*Map, *Chan      reference objects
//	Iface            interface value (dynamic type + value)
//	*ssa.Function, *ssa.Builtin, *Closure   function values
//	Tuple            multi-value results
//	UPtr             unsafe pointer to a slice element (keeps backing store)
type Value interface{}

type Array []Value
type Struct []Value
type Slice []Value
type Tuple []Value

type Float struct {
	v   float64
	t   *Term // Real-sorted term (Real mode), nil if concrete/unknown
	unk bool
	f32 bool
}

type Iface struct {
	T types.Type
	V Value
}

type Closure struct {
	Fn  *ssa.Function
	Env []Value
}

// UPtr is an unsafe.Pointer (or *T derived from one) that points at element 0
// of back; it remembers the element type it came from.
type UPtr struct {
	back Slice
	elem types.Type // element type of the original slice
	as   types.Type // pointee type it is currently viewed as (nil = unsafe.Pointer)
}

type mapEntry struct {
	k, v Value
	dead bool
}

type Map struct {
	kt, vt  types.Type
	entries []*mapEntry
}

func (m *Map) live() int {
	n := 0
	for _, e := range m.entries {
		if !e.dead {
			n++
		}
	}
	return n
}

// opaque error object created by intercepted errors.New / fmt.Errorf
type OpaqueErr struct {
	id  int
	msg string
}

// rangeIter state for Range/Next over maps and strings
type mapIter struct {
	m    *Map
	keys []*mapEntry
	i    int
}
type strIter struct {
	s string
	i int
}

func (r *Run) zero(t types.Type) Value {
	switch t := t.(type) {
	case *types.Basic:
		if t.Kind() == types.UntypedNil {
			panic("untyped nil has no zero value")
		}
		if t.Info()&types.IsUntyped != 0 {
			t = types.Default(t).(*types.Basic)
		}
		switch {
		case t.Kind() == types.Bool:
			return r.tt.fls
		case t.Info()&types.IsInteger != 0:
			return r.tt.Const(sortOf(t), 0)
		case t.Kind() == types.Float32:
			return Float{f32: true}
		case t.Kind() == types.Float64:
			return Float{}
		case t.Kind() == types.String:
			return ""
		case t.Kind() == types.UnsafePointer:
			return (*Value)(nil)
		case t.Info()&types.IsComplex != 0:
			return Tuple{Float{}, Float{}}
		}
		panic(fmt.Sprintf("zero: basic %v", t))
	case *types.Pointer:
		return (*Value)(nil)
	case *types.Array:
		a := make(Array, t.Len())
		for i := range a {
			a[i] = r.zero(t.Elem())
		}
		return a
	case *types.Named:
		return r.zero(t.Underlying())
	case *types.Alias:
		return r.zero(types.Unalias(t))
	case *types.Interface:
		return Iface{}
	case *types.Slice:
		return Slice(nil)
	case *types.Struct:
		s := make(Struct, t.NumFields())
		for i := range s {
			s[i] = r.zero(t.Field(i).Type())
		}
		return s
	case *types.Tuple:
		if t.Len() == 1 {
			return r.zero(t.At(0).Type())
		}
		s := make(Tuple, t.Len())
		for i := range s {
			s[i] = r.zero(t.At(i).Type())
		}
		return s
	case *types.Chan:
		return (*Chan)(nil)
	case *types.Map:
		return (*Map)(nil)
	case *types.Signature:
		return (*Closure)(nil)
	case *types.TypeParam:
		panic("zero of type param")
	}
	panic(fmt.Sprintf("zero: unexpected %T %v", t, t))
}

func sortOf(t types.Type) Sort {
	b, ok := t.Underlying().(*types.Basic)
	if !ok {
		panic(fmt.Sprintf("sortOf: not basic: %v", t))
	}
	switch b.Kind() {
	case types.Bool, types.UntypedBool:
		return SBool
	case types.Int8, types.Uint8:
		return 8
	case types.Int16, types.Uint16:
		return 16
	case types.Int32, types.Uint32, types.UntypedRune:
		return 32
	case types.Int, types.Uint, types.Int64, types.Uint64, types.Uintptr, types.UntypedInt:
		return 64
	}
	panic(fmt.Sprintf("sortOf: %v", t))
}

func isSigned(t types.Type) bool {
	b, ok := t.Underlying().(*types.Basic)
	return ok && b.Info()&types.IsInteger != 0 && b.Info()&types.IsUnsigned == 0
}
func isInteger(t types.Type) bool {
	b, ok := t.Underlying().(*types.Basic)
	return ok && b.Info()&types.IsInteger != 0
}
func isFloat(t types.Type) bool {
	b, ok := t.Underlying().(*types.Basic)
	return ok && b.Info()&types.IsFloat != 0
}
func isString(t types.Type) bool {
	b, ok := t.Underlying().(*types.Basic)
	return ok && b.Info()&types.IsString != 0
}
func isBoolean(t types.Type) bool {
	b, ok := t.Underlying().(*types.Basic)
	return ok && b.Info()&types.IsBoolean != 0
}

// copyVal makes a deep copy of aggregates (arrays, structs); other values are shared.
func copyVal(v Value) Value {
	switch v := v.(type) {
	case Array:
		a := make(Array, len(v))
		for i := range v {
			a[i] = copyVal(v[i])
		}
		return a
	case Struct:
		s := make(Struct, len(v))
		for i := range v {
			s[i] = copyVal(v[i])
		}
		return s
	case Tuple:
		s := make(Tuple, len(v))
		copy(s, v)
		return s
	case Wide:
		return v.val()
	}
	return v
}

func fmtValue(v Value) string {
	return fmtValueD(v, 0)
}

func fmtValueD(v Value, d int) string {
	if d > 4 {
		return "…"
	}
	switch v := v.(type) {
	case nil:
		return "<nil>"
	case *Term:
		return v.String()
	case Float:
		if v.unk {
			return "float?"
		}
		if v.t != nil {
			return "real:" + v.t.String()
		}
		return fmt.Sprint(v.v)
	case string:
		return fmt.Sprintf("%q", v)
	case *Value:
		if v == nil {
			return "nil"
		}
		return "&" + fmtValueD(*v, d+1)
	case Array, Struct, Slice, Tuple:
		var xs []Value
		switch v := v.(type) {
		case Array:
			xs = v
		case Struct:
			xs = v
		case Slice:
			xs = v
		case Tuple:
			xs = v
		}
		var sb strings.Builder
		sb.WriteString("{")
		for i, x := range xs {
			if i > 0 {
				sb.WriteString(" ")
			}
			if i > 16 {
				sb.WriteString("…")
				break
			}
			sb.WriteString(fmtValueD(x, d+1))
		}
		sb.WriteString("}")
		return sb.String()
	case Iface:
		if v.T == nil {
			return "iface(nil)"
		}
		return fmt.Sprintf("iface(%v:%s)", v.T, fmtValueD(v.V, d+1))
	case *Map:
		if v == nil {
			return "map(nil)"
		}
		return fmt.Sprintf("map[%d]", v.live())
	case *OpaqueErr:
		return fmt.Sprintf("error#%d(%s)", v.id, v.msg)
	}
	return fmt.Sprintf("%T", v)
}

// ---- float helpers

func (f Float) concrete() bool { return !f.unk && f.t == nil }

func mkFloat(v float64, f32 bool) Float {
	if f32 {
		v = float64(float32(v))
	}
	return Float{v: v, f32: f32}
}

func ratOfFloat(v float64) *big.Rat {
	r := new(big.Rat)
	if math.IsNaN(v) || math.IsInf(v, 0) {
		return nil
	}
	r.SetFloat64(v)
	return r
}

// sortedKeys helper for deterministic iteration over string-keyed maps
func sortedKeys[V any](m map[string]V) []string {
	ks := make([]string, 0, len(m))
	for k := range m {
		ks = append(ks, k)
	}
	sort.Strings(ks)
	return ks
}
