package main

// fsModel: a small file-system model used by the os.* intercepts.
type fsFile struct {
	exists  bool
	isDir   bool
	content []Value // bytes (terms)
	open    int
	closed  int
	created int
	writes  int
}

type fsModel struct {
	files      map[string]*fsFile
	order      []string
	ops        []string
	strictDirs bool
}
