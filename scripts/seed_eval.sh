#!/bin/bash
# usage: seed_eval.sh <PROP> <mutant dir with patch.diff + zz_seed_test.go> <name>
# Confirms the mutant (builds, suite passes, demo fails with / passes without) in a scratch
# worktree, then runs the property's quick check against /repo with the patch applied.
set -u
export GOFLAGS=-mod=mod GOPROXY=off GOSUMDB=off GOTOOLCHAIN=local
PROP=$1; MD=$2; NAME=$3
WT=/tmp/wt_eval_$NAME
OUT=/verif/seeded/$NAME
mkdir -p $OUT
cp $MD/patch.diff $OUT/patch.diff
cp $MD/zz_seed_test.go $OUT/zz_seed_test.go 2>/dev/null
[ -f $MD/notes.md ] && cp $MD/notes.md $OUT/notes.md
pkgname=$(grep -m1 '^package ' $MD/zz_seed_test.go | awk '{print $2}')
case $pkgname in dastard) pdir=. ;; *) pdir=$pkgname ;; esac
git -C /repo worktree add -q --detach $WT HEAD || exit 9
cd $WT
(git apply $OUT/patch.diff 2>/dev/null || git apply --3way $OUT/patch.diff) || { echo "PATCH DOES NOT APPLY"; git -C /repo worktree remove --force $WT; exit 8; }
build=ok; go build ./... >/dev/null 2>&1 || build=FAIL
suite=$(go test -vet=off -count=1 ./... 2>&1 | grep -oE -- '--- FAIL: [A-Za-z0-9_]+' | grep -v 'TestWritingFiles\|TestWriteControl' | tr '\n' ' ')
cp $OUT/zz_seed_test.go $pdir/zz_seed_test.go
demo_with=$(go test ${SEED_TESTFLAGS:-} -tags verif -vet=off -count=1 -run "TestSeeded" ./$pdir 2>&1 | tail -1 | awk '{print $1}')
git reset -q --hard; 
demo_without=$(go test ${SEED_TESTFLAGS:-} -tags verif -vet=off -count=1 -run "TestSeeded" ./$pdir 2>&1 | tail -1 | awk '{print $1}')
# now our check, against the scratch worktree with the patch applied (never /repo itself)
git apply $OUT/patch.diff 2>/dev/null || git apply --3way $OUT/patch.diff
cd /verif; t0=$(date +%s)
mkdir -p /tmp/seed_scratch_$NAME
VERIF_SCRATCH=/tmp/seed_scratch_$NAME timeout 1500 bin/gosym check $PROP quick --repo $WT > $OUT/check_output.txt 2>&1; rc=$?
t1=$(date +%s)
rm -rf /tmp/seed_scratch_$NAME
cd /; git -C /repo worktree remove --force $WT
viol=$(grep -c '^VIOLATION' $OUT/check_output.txt)
python3 - <<PY
import json
json.dump({"property":"$PROP","name":"$NAME","package_dir":"$pdir","build":"$build","other_suite_failures":"$suite","demo_with_mutant":"$demo_with","demo_without_mutant":"$demo_without","check_cmd":"bin/gosym check $PROP quick","check_exit":$rc,"violation_lines":$viol,"check_wall_s":$((t1-t0)),"caught": $rc==1},open("$OUT/meta.json","w"),indent=1)
PY
echo "$NAME: build=$build suitefails=[$suite] demo_with=$demo_with demo_without=$demo_without check_exit=$rc violations=$viol wall=$((t1-t0))s"
grep -A1 '^VIOLATION' $OUT/check_output.txt | head -6
