#!/bin/bash
# Runs every property's thorough tier once from the directory this script's snapshot lives in
# (used with `vp run`); results are a smoke test of the thorough bounds, not evidence.
set -u
export GOFLAGS=-mod=mod GOPROXY=off GOSUMDB=off GOTOOLCHAIN=local
HERE=$(cd "$(dirname "$0")/.." && pwd)
cd $HERE/engine && go build -o $HERE/bin/gosym . || exit 3
cd $HERE
export VERIF_DIR=$HERE
PER=${PER:-2400}
for p in ${PROPS:-C12 C14 C16 C11 C07 C04 C06 C17 C18 C10 C20 C19 C09 C15 C03 C05 C08 C13 C02 C01}; do
  t0=$(date +%s)
  mkdir -p /tmp/thor_$p
  VERIF_SCRATCH=/tmp/thor_$p timeout $PER bin/gosym check $p thorough > thorough_$p.log 2>&1; rc=$?
  echo "$p rc=$rc wall=$(( $(date +%s)-t0 ))s $(grep -c '^INCONCLUSIVE' thorough_$p.log) inconclusive; $(tail -1 thorough_$p.log | cut -c1-170)"
  grep '^INCONCLUSIVE\|^VIOLATION' thorough_$p.log | head -5 | cut -c1-300
  rm -rf /tmp/thor_$p
done
