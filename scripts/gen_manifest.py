#!/usr/bin/env python3
# Regenerates /verif/MANIFEST.json from harness/checks.json (+ not_applicable.json).
import json
props=[json.loads(l) for l in open('/verif/properties.jsonl')]
checks=json.load(open('/verif/harness/checks.json'))
try:
    na=json.load(open('/verif/harness/not_applicable.json'))
except FileNotFoundError:
    na={}
TECH="SMT-based bounded symbolic execution of the real go/ssa (gosym + z3 5.1/cvc5), solver-decided assertions, counterexamples replayed natively"
man={
 "version":1,
 "setup_cmd":"cd /verif/engine && GOFLAGS=-mod=mod GOPROXY=off GOSUMDB=off GOTOOLCHAIN=local go build -o /verif/bin/gosym .",
 "hooks":{"guard":"verif","enable":"build with -tags verif (the engine's package load and the native replay builds both set it): verifPoint(name, args...) then calls the package variable VerifHook if a harness installed one; without the tag verifPoint is an empty function (verif_hooks_off.go). Points: publish (client_updater.go), four points between the file-system steps of saveState, and one each before the select of CoreLoop and of the request queue loop in runLaterIfActive (used by native replays to hold the core loop back while a request waits). Harness files themselves are never in /repo: they are injected with go/packages overlays (engine) and `go test -overlay` (native replay)","baseline_off_cmd":"cd /repo && GOFLAGS=-mod=mod GOPROXY=off GOSUMDB=off go test -vet=off -count=1 -timeout 25m ./...","source_commits":["e8c20ca","dfd4d68"],"add_only":True},
 "engines":[{"name":"gosym","path":"/verif/engine","serves_properties":sorted(checks.keys()),"kind_free_text":"own symbolic executor for go/ssa (x/tools v0.29.0) with SMT back end (z3 5.1 default, cvc5 1.0.3 optional), path exploration by re-execution with decision vectors, 16 workers each with an incremental solver process, native replay of counterexamples and of witness paths via `go test -overlay`"}],
 "checks":[], "not_applicable":[],
 "notes":"Exit status of every check: 0 = held on everything explored (KNOWN-FINDING lines allowed), 1 = VIOLATION reproduced natively, 2 = inconclusive (bound exceeded, solver unknown, unsupported construct, vacuous harness or encoding mismatch) — never reported as success. See DESIGN.md."
}
for p in props:
    pid=p['id']
    if pid in checks:
        c=checks[pid]
        lvl=c.get('level','model_checking')
        hs='; '.join(h['name']+': '+h.get('what','') for h in c['harnesses'])
        man['checks'].append({
          "property_id":pid,
          "quick_cmd":"bin/gosym check %s quick"%pid,
          "thorough_cmd":"bin/gosym check %s thorough"%pid,
          "evidence_file":"/verif/evidence/%s.json"%pid,
          "replay_cmd_template":"bin/gosym check %s --replay {path}"%pid,
          "engine":"gosym",
          "level_claimed":{"category":lvl,"text":c.get('claim') or ("bounded symbolic execution of the real code through harnesses — "+hs),"design_ref":"DESIGN.md §3 "+pid},
          "level_note":(c.get('note') or "")+" Assumes: "+'; '.join(c.get('assumptions',[]) or ['see evidence'])+". Outside the claim: "+'; '.join(c.get('outside',[]) or ['sizes above the stated bounds'])+". Trusted: go/ssa, gosym SSA semantics (validated by native witness replays on every run), SMT solver.",
          "technique":c.get('technique') or TECH})
    else:
        man['not_applicable'].append({"property_id":pid,"reason":na.get(pid,"check not built yet in this round (engine stage pending)")})
json.dump(man,open('/verif/MANIFEST.json','w'),indent=1)
print('claimed',[c['property_id'] for c in man['checks']])
