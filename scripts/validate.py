#!/opt/veriftools/pyvenv/bin/python
import json,jsonschema,sys,glob
jsonschema.validate(json.load(open('/verif/MANIFEST.json')),json.load(open('/root/.vp/MANIFEST.schema.json')))
es=json.load(open('/root/.vp/EVIDENCE.schema.json'))
for f in sorted(glob.glob('/verif/evidence/*.json')):
    jsonschema.validate(json.load(open(f)),es)
    print('ok',f)
m=json.load(open('/verif/MANIFEST.json'))
ids={c['property_id'] for c in m['checks']}|{n['property_id'] for n in m.get('not_applicable',[])}
props=[json.loads(l)['id'] for l in open('/verif/properties.jsonl')]
assert set(props)==ids, set(props)^ids
print('manifest ok; claimed',sorted(c['property_id'] for c in m['checks']))
