#!/bin/bash
# helper: run a harness and summarise
/verif/bin/gosym run "$@" 2>/tmp/gosym.err | python3 -c "
import sys,json
t=sys.stdin.read()
try:
  d=json.loads(t)
except Exception as e:
  print(t[:3000]); sys.exit(1)
print('paths',d['Paths'],'ends',d['Ends'],'oblig',d['Obligations'],'disch',d['Discharged'],'unk',d['Unknown'],'Q',d['SolverQ'],d['SolverTime'],'max',d['SolverMax'],'wall',d['Wall'])
print('witnesses',d['Witnesses'])
print('checks',d['Checks'])
for k,v in d['Details'].items(): print('DETAIL x%d: %s'%(v,k[:1500]))
for v in (d['Violations'] or []): print('VIOL',v['kind'],v['label'],v['site'],v['msg'][:200],v.get('inputs'),v.get('tags'))
print('assumptions',d['Assumptions'])
"
tail -3 /tmp/gosym.err
