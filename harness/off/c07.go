package off

// C07 — OFF records are written completely or rejected, never partially.

import (
	"runtime"
	"time"

	"github.com/usnistgov/dastard/asyncbufio"
)

type c07Sink struct{ log []byte }

func (s *c07Sink) Write(p []byte) (int, error) {
	s.log = append(s.log, p...)
	return len(p), nil
}

func verifC07AtomicOFF() {
	runtime.GOMAXPROCS(1)
	depth := vParam("depth", 10)
	occ := vRange("occupancy", 0, depth)
	nb := vRange("nbases", 1, vParam("maxbases", 2))
	sink := &c07Sink{}
	aw := asyncbufio.NewWriter(sink, depth, time.Hour)
	for i := 0; i < occ; i++ {
		n, err := aw.Write([]byte{0xEE})
		vCheck(err == nil && n == 1, "filling the queue up to its capacity succeeds")
	}
	w := &Writer{NumberOfBases: nb, headerWritten: true, writer: aw}
	coefs := make([]float32, nb)
	frame := vSymI64("frame")
	err := w.WriteRecord(int32(vSymI32("nsamp")), int32(vSymI32("npre")), frame, vSymI64("ts"), 1.5, 2.5, 3.5, coefs)
	vCheck((w.RecordsWritten() == 1) == (err == nil), "records-written counter counts accepted records only")
	aw.Close()
	recsize := 36 + 4*nb
	if err == nil {
		vCheck(len(sink.log) == occ+recsize, "an accepted record is in the file completely")
	} else {
		vCheck(len(sink.log) == occ, "a rejected record leaves no bytes in the file")
	}
	vObserve("len", int64(len(sink.log)))
	vWitness("c07atomicoff-end")
}
