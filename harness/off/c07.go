package off

// C07 — OFF records are written completely or rejected, never partially.

import (
	"runtime"
	"time"

	"github.com/usnistgov/dastard/asyncbufio"
)

type c07Sink struct{ log []byte }

func (s *c07Sink) Write(p []byte) (int, error) {
	s.log = append(s.log, p...)
	return len(p), nil
}

func verifC07AtomicOFF() {
	runtime.GOMAXPROCS(1)
	depth := vParam("depth", 10)
	occ := vRange("occupancy", 0, depth)
	nb := vRange("nbases", 1, vParam("maxbases", 2))
	sink := &c07Sink{}
	aw := asyncbufio.NewWriter(sink, depth, time.Hour)
	for i := 0; i < occ; i++ {
		n, err := aw.Write([]byte{0xEE})
		vCheck(err == nil && n == 1, "filling the queue up to its capacity succeeds")
	}
	w := &Writer{NumberOfBases: nb, headerWritten: true, writer: aw}
	coefs := make([]float32, nb)
	frame := vSymI64("frame")
	err := w.WriteRecord(int32(vSymI32("nsamp")), int32(vSymI32("npre")), frame, vSymI64("ts"), 1.5, 2.5, 3.5, coefs)
	vCheck((w.RecordsWritten() == 1) == (err == nil), "records-written counter counts accepted records only")
	aw.Close()
	recsize := 36 + 4*nb
	if err == nil {
		vCheck(len(sink.log) == occ+recsize, "an accepted record is in the file completely")
	} else {
		vCheck(len(sink.log) == occ, "a rejected record leaves no bytes in the file")
	}
	vObserve("len", int64(len(sink.log)))
	vWitness("c07atomicoff-end")
}

// verifC07SequenceOFF: nrec records with distinct symbolic contents pending in the queue at
// once (stalled writer goroutine); after Close the sink holds them whole and in order.
func verifC07SequenceOFF() {
	runtime.GOMAXPROCS(1)
	nrec := vParam("nrec", 3)
	nb := 1
	sink := &c07Sink{}
	aw := asyncbufio.NewWriter(sink, 10*nrec, time.Hour)
	w := &Writer{NumberOfBases: nb, headerWritten: true, writer: aw}
	frames := make([]int64, nrec)
	tss := make([]int64, nrec)
	ns := make([]int32, nrec)
	for k := 0; k < nrec; k++ {
		ks := string(rune('0' + k))
		frames[k], tss[k], ns[k] = vSymI64("frame"+ks), vSymI64("ts"+ks), int32(vSymI32("nsamp"+ks))
		err := w.WriteRecord(ns[k], 1, frames[k], tss[k], 1.5, 2.5, 3.5, make([]float32, nb))
		vCheck(err == nil, "a record is accepted while the queue has room")
	}
	aw.Close()
	recsize := 36 + 4*nb
	vCheck(len(sink.log) == nrec*recsize, "the file holds whole records only")
	if len(sink.log) == nrec*recsize {
		for k := 0; k < nrec; k++ {
			b := sink.log[k*recsize : (k+1)*recsize]
			var n uint32
			for j := 3; j >= 0; j-- {
				n = n<<8 | uint32(b[j])
			}
			var f, t uint64
			for j := 7; j >= 0; j-- {
				f = f<<8 | uint64(b[8+j])
				t = t<<8 | uint64(b[16+j])
			}
			vCheck(int32(n) == ns[k], "record k of the file carries the k-th accepted record's sample count")
			vCheck(int64(f) == frames[k], "record k of the file carries the k-th accepted record's frame field")
			vCheck(int64(t) == tss[k], "record k of the file carries the k-th accepted record's time stamp")
		}
	}
	vObserve("len", int64(len(sink.log)))
	vWitness("c07sequenceoff-end")
}
