package ljh

// C07 — a record is written completely or rejected with an error, never partially,
// whatever the occupancy of the internal write queue (stalled disk).

import (
	"runtime"
	"time"

	"github.com/usnistgov/dastard/asyncbufio"
)

type c07Sink struct{ log []byte }

func (s *c07Sink) Write(p []byte) (int, error) {
	s.log = append(s.log, p...)
	return len(p), nil
}

// verifC07Atomic: queue of capacity depth already holding occ whole earlier writes, the
// writer goroutine not scheduled (a stalled disk); one WriteRecord with symbolic content.
// After Close the sink holds the earlier writes followed by the whole record (if accepted)
// or by nothing (if rejected).
func verifC07Atomic() {
	runtime.GOMAXPROCS(1) // natively: keeps the writer goroutine off the CPU while the queue is filled
	depth := vParam("depth", 6)
	occ := vRange("occupancy", 0, depth)
	which := vRange("writer", 0, 1) // LJH2.2 or LJH3
	nsamp := vRange("nsamp", 1, vParam("maxnsamp", 2))
	sink := &c07Sink{}
	aw := asyncbufio.NewWriter(sink, depth, time.Hour)
	for i := 0; i < occ; i++ {
		n, err := aw.Write([]byte{0xEE})
		vCheck(err == nil && n == 1, "filling the queue up to its capacity succeeds")
	}
	data := make([]uint16, nsamp)
	for i := range data {
		data[i] = vSymU16("d" + string(rune('a'+i)))
	}
	frame, ts := vSymI64("frame"), vSymI64("timestamp")
	var err error
	recsize := 0
	if which == 0 {
		w := &Writer{Samples: nsamp, SubframeDivisions: 1, HeaderWritten: true, writer: aw}
		err = w.WriteRecord(frame, ts, data)
		recsize = 16 + 2*nsamp
		vCheck((w.RecordsWritten == 1) == (err == nil), "records-written counter counts accepted records only")
	} else {
		w := &Writer3{HeaderWritten: true, writer: aw}
		err = w.WriteRecord(1, frame, ts, data)
		recsize = 24 + 2*nsamp
		vCheck((w.RecordsWritten == 1) == (err == nil), "records-written counter counts accepted records only")
	}
	aw.Close()
	if err == nil {
		vCheck(len(sink.log) == occ+recsize, "an accepted record is in the file completely")
	} else {
		vCheck(len(sink.log) == occ, "a rejected record leaves no bytes in the file")
	}
	for i := 0; i < occ && i < len(sink.log); i++ {
		vCheck(sink.log[i] == 0xEE, "earlier data come first, untouched")
	}
	if err == nil && len(sink.log) == occ+recsize {
		b := sink.log[occ:]
		o := 0
		if which == 1 {
			o = 8
		}
		var f uint64
		for j := 7; j >= 0; j-- {
			f = f<<8 | uint64(b[o+j])
		}
		vCheck(int64(f) == frame, "the record's frame field is intact")
		for i := 0; i < nsamp; i++ {
			vCheck(uint16(b[recsize-2*nsamp+2*i])|uint16(b[recsize-2*nsamp+2*i+1])<<8 == data[i], "the record's samples are intact")
		}
	}
	vObserve("len", int64(len(sink.log)))
	vWitness("c07atomic-end")
}
