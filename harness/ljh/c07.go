package ljh

// C07 — a record is written completely or rejected with an error, never partially,
// whatever the occupancy of the internal write queue (stalled disk).

import (
	"runtime"
	"time"

	"github.com/usnistgov/dastard/asyncbufio"
)

type c07Sink struct{ log []byte }

func (s *c07Sink) Write(p []byte) (int, error) {
	s.log = append(s.log, p...)
	return len(p), nil
}

// verifC07Atomic: queue of capacity depth already holding occ whole earlier writes, the
// writer goroutine not scheduled (a stalled disk); one WriteRecord with symbolic content.
// After Close the sink holds the earlier writes followed by the whole record (if accepted)
// or by nothing (if rejected).
func verifC07Atomic() {
	runtime.GOMAXPROCS(1) // natively: keeps the writer goroutine off the CPU while the queue is filled
	depth := vParam("depth", 6)
	occ := vRange("occupancy", 0, depth)
	which := vRange("writer", 0, 1) // LJH2.2 or LJH3
	nsamp := vRange("nsamp", 1, vParam("maxnsamp", 2))
	sink := &c07Sink{}
	aw := asyncbufio.NewWriter(sink, depth, time.Hour)
	for i := 0; i < occ; i++ {
		n, err := aw.Write([]byte{0xEE})
		vCheck(err == nil && n == 1, "filling the queue up to its capacity succeeds")
	}
	data := make([]uint16, nsamp)
	for i := range data {
		data[i] = vSymU16("d" + string(rune('a'+i)))
	}
	frame, ts := vSymI64("frame"), vSymI64("timestamp")
	var err error
	recsize := 0
	if which == 0 {
		w := &Writer{Samples: nsamp, SubframeDivisions: 1, HeaderWritten: true, writer: aw}
		err = w.WriteRecord(frame, ts, data)
		recsize = 16 + 2*nsamp
		vCheck((w.RecordsWritten == 1) == (err == nil), "records-written counter counts accepted records only")
	} else {
		w := &Writer3{HeaderWritten: true, writer: aw}
		err = w.WriteRecord(1, frame, ts, data)
		recsize = 24 + 2*nsamp
		vCheck((w.RecordsWritten == 1) == (err == nil), "records-written counter counts accepted records only")
	}
	aw.Close()
	if err == nil {
		vCheck(len(sink.log) == occ+recsize, "an accepted record is in the file completely")
	} else {
		vCheck(len(sink.log) == occ, "a rejected record leaves no bytes in the file")
	}
	for i := 0; i < occ && i < len(sink.log); i++ {
		vCheck(sink.log[i] == 0xEE, "earlier data come first, untouched")
	}
	if err == nil && len(sink.log) == occ+recsize {
		b := sink.log[occ:]
		o := 0
		if which == 1 {
			o = 8
		}
		var f uint64
		for j := 7; j >= 0; j-- {
			f = f<<8 | uint64(b[o+j])
		}
		vCheck(int64(f) == frame, "the record's frame field is intact")
		for i := 0; i < nsamp; i++ {
			vCheck(uint16(b[recsize-2*nsamp+2*i])|uint16(b[recsize-2*nsamp+2*i+1])<<8 == data[i], "the record's samples are intact")
		}
	}
	vObserve("len", int64(len(sink.log)))
	vWitness("c07atomic-end")
}

// verifC07Sequence: nrec records with distinct symbolic contents are all accepted while the
// writer goroutine is stalled (all pending in the queue at once); after Close the sink holds
// exactly those records, each intact, in the order written.
func verifC07Sequence() {
	runtime.GOMAXPROCS(1)
	nrec := vParam("nrec", 3)
	which := vRange("writer", 0, 1)
	nsamp := vParam("nsamp", 2)
	sink := &c07Sink{}
	aw := asyncbufio.NewWriter(sink, 4*nrec, time.Hour)
	frames := make([]int64, nrec)
	tss := make([]int64, nrec)
	datas := make([][]uint16, nrec)
	var w2 *Writer
	var w3 *Writer3
	if which == 0 {
		w2 = &Writer{Samples: nsamp, SubframeDivisions: 1, HeaderWritten: true, writer: aw}
	} else {
		w3 = &Writer3{HeaderWritten: true, writer: aw}
	}
	for k := 0; k < nrec; k++ {
		ks := string(rune('0' + k))
		frames[k], tss[k] = vSymI64("frame"+ks), vSymI64("ts"+ks)
		datas[k] = make([]uint16, nsamp)
		for i := range datas[k] {
			datas[k][i] = vSymU16("d" + ks + string(rune('a'+i)))
		}
		var err error
		if which == 0 {
			err = w2.WriteRecord(frames[k], tss[k], datas[k])
		} else {
			err = w3.WriteRecord(1, frames[k], tss[k], datas[k])
		}
		vCheck(err == nil, "a record is accepted while the queue has room")
	}
	aw.Close()
	recsize, o := 16+2*nsamp, 0
	if which == 1 {
		recsize, o = 24+2*nsamp, 8
	}
	vCheck(len(sink.log) == nrec*recsize, "the file holds whole records only")
	if len(sink.log) == nrec*recsize {
		for k := 0; k < nrec; k++ {
			b := sink.log[k*recsize : (k+1)*recsize]
			var f, t uint64
			for j := 7; j >= 0; j-- {
				f = f<<8 | uint64(b[o+j])
				t = t<<8 | uint64(b[o+8+j])
			}
			vCheck(int64(f) == frames[k], "record k of the file carries the k-th accepted record's frame field")
			vCheck(int64(t) == tss[k], "record k of the file carries the k-th accepted record's time stamp")
			for i := 0; i < nsamp; i++ {
				vCheck(uint16(b[recsize-2*nsamp+2*i])|uint16(b[recsize-2*nsamp+2*i+1])<<8 == datas[k][i], "record k of the file carries the k-th accepted record's samples")
			}
		}
	}
	vObserve("len", int64(len(sink.log)))
	vWitness("c07sequence-end")
}
