package ringbuffer

// C18 — the shared-memory ring buffer is a loss-free, duplication-free FIFO across wrap.
//
// The RingBuffer is built in ordinary memory (bufferDescription + []byte); none of
// the methods under test cares where the memory comes from.

func c18New(size int) *RingBuffer {
	rb := new(RingBuffer)
	rb.desc = &bufferDescription{magic: 0xb0ffde5c, version: 0x01020003, bufferSize: uint64(size), packetSize: 8192}
	rb.size = uint64(size)
	rb.raw = make([]byte, size)
	rb.writeable = true
	return rb
}

// c18State puts the buffer into an arbitrary state satisfying the representation
// invariant: r <= w, w-r <= size-1, counters far from 64-bit wrap; contents arbitrary.
func c18State(rb *RingBuffer, size int) (r, w uint64, old []byte) {
	// the read counter is an arbitrary value below 2^rbits (stated bound)
	switch vParam("rbits", 16) {
	case 16:
		r = uint64(vSymU16("r"))
	case 32:
		r = uint64(vSymU32("r"))
	default:
		r = vSymU64("r")
		vAssume(r < 1<<62)
	}
	fill := uint64(vSymU8("fill"))
	vAssume(fill <= uint64(size-1))
	w = r + fill
	rb.desc.readPointer = r
	rb.desc.writePointer = w
	old = make([]byte, size)
	for i := 0; i < size; i++ {
		b := vSymU8("raw" + string(rune('a'+i)))
		rb.raw[i] = b
		old[i] = b
	}
	return
}

func c18Inv(rb *RingBuffer, size int, what string) {
	r, w := rb.desc.readPointer, rb.desc.writePointer
	vCheck(r <= w && w-r <= uint64(size-1), what+": invariant r<=w<=r+size-1 preserved")
	vCheck(rb.desc.bufferSize == uint64(size) && rb.size == uint64(size) && len(rb.raw) == size, what+": geometry unchanged")
}

// verifC18Read: Read(n) / ReadAll from an arbitrary valid state.
func verifC18Read() {
	size := vRange("size", 2, vParam("maxsize", 6))
	rb := c18New(size)
	r, w, old := c18State(rb, size)
	all := vRange("readall", 0, 1) == 1
	var data []byte
	var err error
	n := vSymInt("n")
	vAssume(n >= -1 && n <= size+2)
	if all {
		data, err = rb.ReadAll()
		n = size
	} else {
		data, err = rb.Read(n)
	}
	vCheck(err == nil, "read: no error")
	avail := int(w - r)
	m := n
	if m > avail {
		m = avail
	}
	if m < 0 {
		m = 0
	}
	vCheck(len(data) == m, "read: returns min(n, available) bytes")
	vCheck(rb.desc.readPointer == r+uint64(m), "read: read pointer advances by the bytes returned")
	vCheck(rb.desc.writePointer == w, "read: write pointer untouched")
	for i := 0; i < len(data) && i < size; i++ {
		vCheck(data[i] == old[(r+uint64(i))%uint64(size)], "read: byte i is the i-th unread byte of the stream")
	}
	vCheck(rb.BytesReadable() == avail-m, "read: BytesReadable consistent")
	c18Inv(rb, size, "read")
	vObserve("len", int64(len(data)))
	vWitness("c18read-end")
}

// verifC18Write: Write(data) from an arbitrary valid state.
func verifC18Write() {
	size := vRange("size", 2, vParam("maxsize", 6))
	rb := c18New(size)
	r, w, old := c18State(rb, size)
	L := vRange("len", 0, size+1)
	data := make([]byte, L)
	for i := range data {
		data[i] = vSymU8("d" + string(rune('a'+i)))
	}
	writeable := rb.BytesWriteable()
	vCheck(writeable == size-1-int(w-r), "BytesWriteable = size-1-fill")
	written, err := rb.Write(data)
	vCheck(err == nil, "write: no error")
	exp := L
	if exp > writeable {
		exp = writeable
	}
	vCheck(written == exp, "write: accepts min(len, free) bytes")
	vCheck(rb.desc.writePointer == w+uint64(exp), "write: write pointer advances by the bytes accepted")
	vCheck(rb.desc.readPointer == r, "write: read pointer untouched")
	for i := 0; i < exp; i++ {
		vCheck(rb.raw[(w+uint64(i))%uint64(size)] == data[i], "write: accepted byte i stored at stream position w+i")
	}
	for i := 0; i < int(vConcrete(int(w-r))); i++ {
		vCheck(rb.raw[(r+uint64(i))%uint64(size)] == old[(r+uint64(i))%uint64(size)], "write: unread bytes not overwritten")
	}
	c18Inv(rb, size, "write")
	vObserve("written", int64(written))
	vWitness("c18write-end")
}

// verifC18ReadMultiple: ReadMultipleOf(k) from an arbitrary valid state.
func verifC18ReadMultiple() {
	size := vRange("size", 2, vParam("maxsize", 6))
	rb := c18New(size)
	r, w, old := c18State(rb, size)
	k := vSymInt("k")
	vAssume(k >= -1 && k <= size+1 && k != 0) // chunk size 0 is meaningless (outside the property)
	data, err := rb.ReadMultipleOf(k)
	avail := int(w - r)
	if k < 0 || k >= size {
		vCheck(err != nil, "readmultiple: chunk size >= buffer size is rejected")
		vCheck(rb.desc.readPointer == r && rb.desc.writePointer == w, "readmultiple: rejected request changes nothing")
	} else {
		vCheck(err == nil, "readmultiple: no error")
		vCheck(len(data)%k == 0, "readmultiple: returns a multiple of the chunk size")
		vCheck(len(data) == (avail/k)*k, "readmultiple: returns as many whole chunks as are available")
		vCheck(rb.desc.readPointer == r+uint64(len(data)), "readmultiple: read pointer advances by the bytes returned")
		for i := 0; i < len(data) && i < size; i++ {
			vCheck(data[i] == old[(r+uint64(i))%uint64(size)], "readmultiple: byte i is the i-th unread byte")
		}
	}
	c18Inv(rb, size, "readmultiple")
	vObserve("len", int64(len(data)))
	vWitness("c18readmultiple-end")
}

// verifC18Discard: DiscardStride(k) / DiscardAll from an arbitrary valid state.
func verifC18Discard() {
	size := vRange("size", 2, vParam("maxsize", 6))
	rb := c18New(size)
	r, w, _ := c18State(rb, size)
	stride := uint64(vRange("stride", 1, size+2))
	if vRange("all", 0, 1) == 1 {
		rb.DiscardAll()
		stride = 1
	} else {
		rb.DiscardStride(stride)
	}
	r2 := rb.desc.readPointer
	vCheck(rb.desc.writePointer == w, "discard: write pointer untouched")
	vCheck(r2 >= r, "discard: read pointer never moves backwards (no byte delivered twice)")
	vCheck(r2 <= w, "discard: read pointer never passes the write pointer")
	// when a stride boundary exists in [r, w] the read position lands on the last one
	boundary := w - w%stride
	if boundary >= r {
		vCheck(r2 == boundary && r2%stride == 0, "discard: read position is the last stride boundary")
		vCheck(w-r2 < stride, "discard: less than one stride left")
	}
	c18Inv(rb, size, "discard")
	vObserve("moved", int64(r2-r))
	vWitness("c18discard-end")
}

// verifC18Seq: bounded model check from the initial (empty) state with a reference
// FIFO: the concatenation of everything read is a prefix of everything accepted.
func verifC18Seq() {
	size := vRange("size", 2, vParam("maxsize", 4))
	nops := vParam("nops", 3)
	rb := c18New(size)
	var fifo []byte // reference model: accepted but not yet delivered bytes
	for step := 0; step < nops; step++ {
		tag := string(rune('0' + step))
		switch vRange("op"+tag, 0, 3) {
		case 0: // Write
			L := vRange("len"+tag, 0, size+1)
			data := make([]byte, L)
			for i := range data {
				data[i] = vSymU8("d" + tag + string(rune('a'+i)))
			}
			n, _ := rb.Write(data)
			vCheck(n >= 0 && n <= L, "seq: write count in range")
			vCheck(n == L || len(fifo)+n == size-1, "seq: write only refuses bytes when full")
			fifo = append(fifo, data[:n]...)
		case 1: // Read
			n := vRange("n"+tag, 0, size+1)
			data, _ := rb.Read(n)
			vCheck(len(data) <= len(fifo) && len(data) <= n, "seq: read returns no more than requested/available")
			vCheck(len(data) == n || len(data) == len(fifo), "seq: read returns everything requested that is available")
			for i := range data {
				vCheck(data[i] == fifo[i], "seq: bytes come out in FIFO order, none skipped or repeated")
			}
			fifo = fifo[len(data):]
		case 2: // ReadMultipleOf
			k := vRange("k"+tag, 1, size-1)
			data, err := rb.ReadMultipleOf(k)
			vCheck(err == nil, "seq: chunked read accepted")
			vCheck(len(data)%k == 0 && len(data) <= len(fifo) && len(fifo)-len(data) < k, "seq: chunked read returns all whole chunks")
			for i := range data {
				vCheck(data[i] == fifo[i], "seq: bytes come out in FIFO order, none skipped or repeated")
			}
			fifo = fifo[len(data):]
		case 3: // DiscardStride
			k := vRange("s"+tag, 1, size+1)
			before := rb.BytesReadable()
			rb.DiscardStride(uint64(k))
			after := rb.BytesReadable()
			vCheck(after <= before, "seq: discard never makes old bytes readable again")
			if after <= before {
				fifo = fifo[before-after:]
			}
		}
		vCheck(rb.BytesReadable() == len(fifo), "seq: readable count equals reference FIFO length")
	}
	vWitness("c18seq-end")
}
