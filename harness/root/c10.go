package dastard

// C10 — source life cycle: start/stop always completes, cleans up, and is repeatable.

import (
	"fmt"
	"time"

	"github.com/usnistgov/dastard/packets"
)

func c10Source(kind int) DataSource {
	if kind == 0 {
		ts := NewTriangleSource()
		if err := ts.Configure(&TriangleSourceConfig{Nchan: 1, SampleRate: 10000, Min: 100, Max: 102}); err != nil {
			vCheck(false, "Triangle source accepts its configuration")
		}
		return ts
	}
	return NewErroringSource()
}

// verifC10Lifecycle: Start, then 1..2 concurrent Stop callers at arbitrary points (racing
// with the source ending itself for the erroring source), under every schedule within the
// preemption bound: every call returns, no deadlock, final state Inactive, all worker
// goroutines gone, and the same object can be started and stopped again.
func verifC10Lifecycle() {
	vClockConcrete()
	vStub("(*github.com/usnistgov/dastard.AnySource).ProcessSegments") // block contents are C01/C09
	PubRecordsChan = make(chan []*DataRecord, 16)
	PubSummariesChan = make(chan []*DataRecord, 16)
	kind := vRange("source", 0, 1)
	ds := c10Source(kind)
	queued := make(chan func())
	for round := 0; round < vParam("rounds", 2); round++ {
		err := Start(ds, queued, 3, 4)
		vCheck(err == nil, "Start succeeds on an inactive source")
		if kind == 0 {
			vCheck(ds.GetState() == Active, "a started source is active")
			vCheck(Start(ds, queued, 3, 4) != nil, "a source can be started only when inactive")
		}
		nstop := 1
		if round == 0 {
			nstop = vRange("stoppers", 1, vParam("maxstoppers", 2))
		}
		done := make(chan error, nstop)
		for i := 0; i < nstop; i++ {
			go func() { done <- ds.Stop() }()
		}
		for i := 0; i < nstop; i++ {
			<-done // every Stop call returns
		}
		if kind == 1 {
			// the erroring source ends itself; Stop may have found it inactive already, or
			// still be waited for: once Stop has returned the core loop is about to finish
			vSettle(50)
		}
		vCheck(ds.GetState() == Inactive, "after all Stop calls have returned the source is inactive")
		vCheck(!ds.WritingIsActive(), "writing is stopped")
		vSettle(50)
		vCheck(vLiveGoroutines() == 0, "the source's worker goroutines have exited")
	}
	vObserve("kind", int64(kind))
	vWitness("c10lifecycle-end")
}

// ---- failed Start: resources opened by the sampling step must be released

type c10Producer struct {
	started bool
	starts  int
	sample  [][]*packets.Packet // what samplePackets returns on the 1st, 2nd, ... call
	calls   int
	failSample bool
}

func (pp *c10Producer) start() error {
	if pp.started {
		return fmt.Errorf("listen udp: bind: address already in use") // what a second bind of the port gives
	}
	pp.started = true
	pp.starts++
	return nil
}
func (pp *c10Producer) stop() error {
	pp.started = false
	return nil
}
func (pp *c10Producer) discardStale() error { return nil }
func (pp *c10Producer) ReadAllPackets() ([]*packets.Packet, error) { return nil, nil }
func (pp *c10Producer) samplePackets(d time.Duration) ([]*packets.Packet, error) {
	k := pp.calls
	pp.calls++
	if pp.failSample && k == 0 {
		return nil, fmt.Errorf("read error while sampling")
	}
	if k < len(pp.sample) {
		return pp.sample[k], nil
	}
	return nil, nil
}

func c10DataPackets() []*packets.Packet {
	var out []*packets.Packet
	for i := 0; i < 3; i++ {
		p := packets.NewPacket(10, 20, uint32(100+i), 0)
		ts := packets.MakeTimestamp(0, uint32(1000+1000*i), 1e8)
		p.SetTimestamp(ts)
		p.NewData([]int16{1, 2, 3, 4}, []int16{2})
		out = append(out, p)
	}
	return out
}

// verifC10FailedStart: Start on an Abaco source whose hardware is not sending yet (sampling
// yields no packets) or whose sampling fails: Start reports the failure, the source is
// inactive, nothing is left started, and a later Start with data available succeeds.
func verifC10FailedStart() {
	vClockConcrete()
	vTimersQuiet()
	vStub("(*github.com/usnistgov/dastard.AnySource).ProcessSegments")
	PubRecordsChan = make(chan []*DataRecord, 16)
	PubSummariesChan = make(chan []*DataRecord, 16)
	as := new(AbacoSource)
	as.name = "Abaco"
	as.groups = make(map[GroupIndex]*AbacoGroup)
	as.channelsPerPixel = 1
	as.subframeDivisions = abacoSubframeDivisions
	mode := vRange("failure", 0, 1) // 0: nothing is being sent yet, 1: the sampling read fails
	pp := &c10Producer{failSample: mode == 1}
	if mode == 0 {
		pp.sample = [][]*packets.Packet{nil, c10DataPackets()}
	} else {
		pp.sample = [][]*packets.Packet{nil, c10DataPackets()}
	}
	as.producers = []PacketProducer{pp}
	queued := make(chan func())
	err := Start(as, queued, 3, 4)
	vCheck(err != nil, "Start without data reports a failure")
	vCheck(as.GetState() == Inactive, "a failed Start leaves the source inactive")
	vCheck(!pp.started, "a failed Start leaves nothing started (sockets are released)")
	err = Start(as, queued, 3, 4)
	vCheck(err == nil, "a later Start, with data available, succeeds")
	if err == nil {
		vCheck(as.GetState() == Active && as.Nchan() == 2, "the restarted source is active with its channels")
		vCheck(as.Stop() == nil, "Stop succeeds")
		vSettle(100)
		vCheck(as.GetState() == Inactive, "after Stop the source is inactive")
	}
	vObserve("starts", int64(pp.starts))
	vWitness("c10failedstart-end")
}

// c10FailingSource is the real Triangle source whose StartRun (the last step of Start, the
// one that talks to the driver for a Lancero source) fails the first `fails` times.
type c10FailingSource struct {
	*TriangleSource
	fails int
}

func (s *c10FailingSource) StartRun() error {
	if s.fails > 0 {
		s.fails--
		return fmt.Errorf("failed to start (driver problem)")
	}
	return s.TriangleSource.StartRun()
}

// verifC10FailedStartRun: Start fails in its last step (after the run-done barrier was
// armed): the source is inactive, nobody waiting for the run to end is left blocked, and the
// same object then goes through complete Start/Stop cycles.
func verifC10FailedStartRun() {
	vClockConcrete()
	vStub("(*github.com/usnistgov/dastard.AnySource).ProcessSegments")
	PubRecordsChan = make(chan []*DataRecord, 16)
	PubSummariesChan = make(chan []*DataRecord, 16)
	ts := NewTriangleSource()
	vCheck(ts.Configure(&TriangleSourceConfig{Nchan: 1, SampleRate: 10000, Min: 100, Max: 102}) == nil, "Triangle source accepts its configuration")
	nfail := vRange("failures", 1, 2)
	ds := &c10FailingSource{TriangleSource: ts, fails: nfail}
	queued := make(chan func())
	for i := 0; i < nfail; i++ {
		vCheck(Start(ds, queued, 3, 4) != nil, "Start reports the failure of its last step")
		vCheck(ds.GetState() == Inactive, "a failed Start leaves the source inactive")
		ds.RunDoneWait() // no run is in progress: must not block
		ds.Stop() // (reports "not active"): must return
	}
	for round := 0; round < vParam("rounds", 2); round++ {
		vCheck(Start(ds, queued, 3, 4) == nil, "a later Start succeeds")
		vCheck(ds.GetState() == Active, "a started source is active")
		vCheck(ds.Stop() == nil, "Stop returns")
		vCheck(ds.GetState() == Inactive, "after Stop the source is inactive")
		vSettle(50)
		vCheck(vLiveGoroutines() == 0, "the source's worker goroutines have exited")
	}
	vObserve("failures", int64(nfail))
	vWitness("c10failedstartrun-end")
}

// verifC10Requests: a control request queued for the core loop (through the real
// SourceControl.runLaterIfActive) races with Stop called on the source and, for the erroring
// source, with the source ending itself: under every schedule within the bounds both calls
// return, nothing deadlocks, and the source ends inactive with its goroutines gone.
func verifC10Requests() {
	vWatchdog(20)
	kind := vRange("source", 0, 1)
	sc := c11Start(kind)
	ds := sc.ActiveSource
	reqDone := make(chan error, 1)
	stopDone := make(chan error, 1)
	go func() {
		var d, reply bool
		reqDone <- sc.StopTriggerCoupling(&d, &reply)
	}()
	go func() { stopDone <- ds.Stop() }()
	<-reqDone // the request is answered (served, or refused because the source is gone)
	<-stopDone
	vSettle(50)
	vCheck(ds.GetState() == Inactive, "after Stop has returned the source is inactive")
	n := vLiveGoroutines()
	vCheck(n <= 1, "only the harness's status consumer is left running") // c11Start's consumer goroutine
	vObserve("kind", int64(kind))
	vWitness("c10requests-end")
}
