package dastard

// Shared rig for the triggering harnesses (C01, C02, C08, C09b): a real AnySource built by
// the real PrepareChannels/PrepareRun, fed through the real ProcessSegments, with the
// published records observed on the (harness-owned) publish channel.

import (
	"time"

	"github.com/spf13/viper"
)

type tRig struct {
	ds      *AnySource
	nchan   int
	npre    int
	nsamp   int
	frame0  FrameIndex
	t0      int64 // time stamp (ns) the source gives frame0
	period  int64 // ns per frame
	truth   [][]RawType
	fed     int // samples delivered so far (per channel)
	pub     chan []*DataRecord
	sum     chan []*DataRecord
	signed  bool
	batches [][]*DataRecord // batches published while processing the last block
}

const tRigFullName = "github.com/usnistgov/dastard"

// newTRig builds the source. restored != nil plays the role of the trigger settings saved
// by the previous run (what PrepareRun reads back from the configuration).
func newTRig(nchan, npre, nsamp int, total int, restored []FullTriggerState, symFrame0 bool) *tRig {
	rig := newTRigBase(nchan, npre, nsamp, restored)
	rig.initStream(total, symFrame0)
	return rig
}

// shareStream makes rig replay the very same (symbolic) stream as other.
func (rig *tRig) shareStream(other *tRig) {
	rig.frame0, rig.t0, rig.period, rig.truth, rig.signed = other.frame0, other.t0, other.period, other.truth, other.signed
}

// tRigCountTriggers: run the real trigger-rate counting (concrete times only).
var tRigCountTriggers bool

func newTRigBase(nchan, npre, nsamp int, restored []FullTriggerState) *tRig {
	rig := &tRig{nchan: nchan, npre: npre, nsamp: nsamp}
	rig.pub = make(chan []*DataRecord, 256)
	rig.sum = make(chan []*DataRecord, 256)
	PubRecordsChan = rig.pub
	PubSummariesChan = rig.sum
	vClockConcrete()
	// analysis values and trigger-rate counting are floating point and not the subject here
	vStub("(*" + tRigFullName + ".DataStreamProcessor).AnalyzeData")
	if !tRigCountTriggers {
		vStub("(*" + tRigFullName + ".TriggerCounter).countNewTriggers")
	}
	ds := new(AnySource)
	ds.nchan = nchan
	ds.name = "verif"
	ds.sampleRate = 10000
	ds.PrepareChannels()
	if restored != nil {
		viper.Set("trigger", restored)
	}
	if err := ds.PrepareRun(npre, nsamp); err != nil {
		vCheck(false, "PrepareRun succeeds")
	}
	// tickers the harness owns (never fire)
	ds.numberWrittenTicker = &time.Ticker{C: make(chan time.Time)}
	ds.writingState.externalTriggerTicker = &time.Ticker{C: make(chan time.Time)}
	ds.writingState.dataDropTicker = &time.Ticker{C: make(chan time.Time)}
	rig.ds = ds
	rig.period = 100000 // 10 kHz
	return rig
}

func (rig *tRig) initStream(total int, symFrame0 bool) {
	nchan := rig.nchan
	if symFrame0 {
		rig.frame0 = FrameIndex(vSymI64("frame0"))
		vAssume(rig.frame0 >= 1000 && rig.frame0 < 1<<40) // frame 0 is the code's "no trigger yet" marker; runs starting near frame 0 are a separate concrete case
		rig.t0 = vSymI64("t0")
		vAssume(rig.t0 >= 0 && rig.t0 < 1<<60)
	} else {
		rig.frame0 = 1000
		rig.t0 = 1700000000000000000
	}
	rig.truth = make([][]RawType, nchan)
	for c := 0; c < nchan; c++ {
		rig.truth[c] = make([]RawType, total)
		for k := 0; k < total; k++ {
			rig.truth[c][k] = RawType(vSymU16("s" + string(rune('0'+c)) + "_" + string(rune('a'+k/26)) + string(rune('a'+k%26))))
		}
	}
}

// feed delivers the next n samples of every channel as one block through ProcessSegments
// and collects the record batches published meanwhile.
func (rig *tRig) feed(n int) {
	block := new(dataBlock)
	block.nSamp = n
	block.segments = make([]DataSegment, rig.nchan)
	for c := 0; c < rig.nchan; c++ {
		data := make([]RawType, n)
		copy(data, rig.truth[c][rig.fed:rig.fed+n])
		block.segments[c] = DataSegment{rawData: data, signed: rig.signed, framesPerSample: 1,
			firstFrameIndex: rig.frame0 + FrameIndex(rig.fed),
			firstTime:       time.Unix(0, rig.t0+int64(rig.fed)*rig.period),
			framePeriod:     time.Duration(rig.period), voltsPerArb: 1}
	}
	err := rig.ds.ProcessSegments(block)
	vCheck(err == nil, "ProcessSegments returns no error")
	rig.fed += n
	rig.batches = rig.batches[:0]
	for {
		select {
		case b := <-rig.pub:
			rig.batches = append(rig.batches, b)
			continue
		default:
		}
		break
	}
	for {
		select {
		case <-rig.sum:
			continue
		default:
		}
		break
	}
}

// sampleIndex converts a record's frame number into an index into the ground truth.
func (rig *tRig) sampleIndex(rec *DataRecord) int {
	return int(rec.trigFrame - rig.frame0)
}

// checkExcerpt is the C01 oracle for one record.
func (rig *tRig) checkExcerpt(rec *DataRecord, wantPre, wantLen int) {
	c := rec.channelIndex
	vCheck(c >= 0 && c < rig.nchan, "record names an existing channel")
	vCheck(len(rec.data) == wantLen, "record has the declared (configured) length")
	vCheck(rec.presamples == wantPre, "record has the declared (configured) pre-trigger length")
	vCheck(rec.signed == rig.signed, "record carries the stream's signedness")
	k := vConcrete(rig.sampleIndex(rec))
	start := k - rec.presamples
	vCheck(start >= 0 && start+len(rec.data) <= rig.fed, "record lies inside the data delivered so far")
	if start < 0 || start+len(rec.data) > rig.fed {
		return
	}
	for j := 0; j < len(rec.data); j++ {
		vCheck(rec.data[j] == rig.truth[c][start+j], "record samples are bit-identical to the delivered samples around the trigger frame")
	}
	vCheck(rec.trigTime.UnixNano() == rig.t0+int64(k)*rig.period, "trigger time is the time the block time stamps assign to the trigger sample")
}
