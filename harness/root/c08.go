package dastard

// C08 — edge-multi triggering is block-boundary independent and never indexes outside.

type c08Rec struct {
	k, npre, n int // trigger sample index (relative to the stream start), pre-trigger length, length
}

func c08Collect(rig *tRig, out []c08Rec, variable bool) []c08Rec {
	for _, batch := range rig.batches {
		for _, rec := range batch {
			if variable {
				rig.checkExcerpt(rec, rec.presamples, len(rec.data))
			} else {
				rig.checkExcerpt(rec, rig.npre, rig.nsamp)
			}
			out = append(out, c08Rec{vConcrete(rig.sampleIndex(rec)), rec.presamples, len(rec.data)})
		}
	}
	return out
}

func c08State(mode int, zeroThr bool, nmono int) TriggerState {
	ts := TriggerState{EdgeMulti: true}
	ts.EdgeMultiLevel = int32(vSymI16("emtLevel"))
	vAssume(ts.EdgeMultiLevel != 0 && ts.EdgeMultiLevel != -32768)
	ts.EdgeMultiVerifyNMonotone = nmono
	ts.EdgeMultiDisableZeroThreshold = !zeroThr
	switch mode {
	case 0:
		ts.EdgeMultiMakeContaminatedRecords = true
	case 1:
		ts.EdgeMultiMakeShortRecords = true
	}
	st, err := ts.EMTBackwardCompatibleRPCFields.toEMTState()
	vCheck(err == nil, "toEMTState accepts the mode")
	ts.EMTState = st
	return ts
}

// c08KinkModel stands in for zeroThreshold when samples are symbolic (the kink fit is a
// floating-point least-squares solve). It covers the ramp-pulse family: the detected edge at
// i is the first step of a linear ramp that starts at i-1 after at least three flat samples;
// for such a window the real fit is exact at k = i-1 and returns i-1.
func c08KinkModel(raw []RawType, i int32, enable bool) int32 {
	if !enable {
		return i
	}
	p := i - 1
	base := raw[p]
	s := raw[p+1] - raw[p]
	ok := vAnd(raw[p-3] == base, vAnd(raw[p-2] == base, raw[p-1] == base))
	ok = vAnd(ok, vAnd(raw[p+2]-raw[p+1] == s, vAnd(raw[p+3]-raw[p+2] == s, raw[p+4]-raw[p+3] == s)))
	ok = vAnd(ok, vAnd(s >= 1, uint32(base)+4*uint32(s) <= 65535))
	vAssume(ok)
	return p
}

// verifC08Blocks: the same symbolic stream through a fresh processor as one block (run A)
// and through another cut into blocks (run B): identical record lists; shape invariants.
func verifC08Blocks() {
	zeroThr := vParam("zerothreshold", 0) == 1
	npre, nsamp := vParam("npre", 3), vParam("nsamp", 5)
	if vParam("onlymode", -1) >= 0 {
		vAssume(true)
	}
	if zeroThr {
		npre, nsamp = 4, 8
		vStubFunc("github.com/usnistgov/dastard.zeroThreshold", c08KinkModel)
	}
	mode := vRange("mode", 0, 2)
	nmono := vRange("nmonotone", 1, vParam("maxnmono", 2))
	nblocks := vRange("nblocks", 2, vParam("maxblocks", 2))
	total := vParam("total", 14)
	cuts := make([]int, nblocks-1)
	prev := 0
	for b := range cuts {
		cuts[b] = vRange("cut"+string(rune('0'+b)), prev+1, total-(nblocks-1-b))
		prev = cuts[b]
	}
	rigA := newTRig(1, npre, nsamp, total, nil, true)
	rigA.signed = false
	if np := vParam("pulses", 0); np > 0 {
		// long records: the stream is a staircase with np steps at case-split positions and
		// symbolic heights (each step is one edge), so that paths do not multiply per sample
		base := vSymU16("base")
		pos := make([]int, np)
		hts := make([]uint16, np)
		prev := npre
		sum := uint32(base)
		for i := 0; i < np; i++ {
			pos[i] = vRange("pulse"+string(rune('0'+i)), prev+1, total-1)
			prev = pos[i]
			hts[i] = vSymU16("height" + string(rune('0'+i)))
			sum += uint32(hts[i])
		}
		vAssume(sum <= 65535)
		for k := 0; k < total; k++ {
			v := base
			for i := 0; i < np; i++ {
				if k >= pos[i] {
					v += hts[i]
				}
			}
			rigA.truth[0][k] = RawType(v)
		}
	}
	ts := c08State(mode, zeroThr, nmono)
	full := &FullTriggerState{ChannelIndices: []int{0}, TriggerState: ts}
	if nmono > nsamp-npre {
		vCheck(rigA.ds.ChangeTriggerState(full) != nil, "settings violating the validity rule are rejected")
		vWitness("c08blocks-invalid-rejected")
		return
	}
	vCheck(rigA.ds.ChangeTriggerState(full) == nil, "ChangeTriggerState accepts the edge-multi settings")
	rigB := newTRigBase(1, npre, nsamp, nil)
	rigB.shareStream(rigA)
	vCheck(rigB.ds.ChangeTriggerState(full) == nil, "ChangeTriggerState accepts the edge-multi settings")
	variable := mode == 1
	var recA, recB []c08Rec
	rigA.feed(total)
	recA = c08Collect(rigA, recA, variable)
	prev = 0
	for b := 0; b < nblocks; b++ {
		end := total
		if b < nblocks-1 {
			end = cuts[b]
		}
		rigB.feed(end - prev)
		recB = c08Collect(rigB, recB, variable)
		prev = end
	}
	// Records still pending at the end of the data may differ: a record is final once the
	// search frontier has passed it by a full record in BOTH runs. Compare the common prefix
	// and require that neither run has emitted more than the other beyond pending ones.
	n := len(recA)
	if len(recB) < n {
		n = len(recB)
	}
	for k := 0; k < n; k++ {
		vCheck(recA[k] == recB[k], "record k (frame, pre-trigger length, length) is the same however the stream is cut")
	}
	vCheck(len(recA) == len(recB), "the same number of records however the stream is cut")
	for _, rs := range [][]c08Rec{recA, recB} {
		for k := range rs {
			if k > 0 {
				vCheck(rs[k-1].k < rs[k].k, "records come in strictly increasing frame order")
			}
			if !variable {
				vCheck(rs[k].npre == npre && rs[k].n == nsamp, "fixed-length modes give full-length records")
			} else {
				vCheck(rs[k].npre >= 0 && rs[k].npre <= npre && rs[k].n-rs[k].npre >= 0 && rs[k].n-rs[k].npre <= nsamp-npre, "variable-length record within the configured lengths")
				if k > 0 {
					vCheck(rs[k-1].k+rs[k-1].n-rs[k-1].npre <= rs[k].k-rs[k].npre, "variable-length records do not overlap")
					vCheck(rs[k-1].k+rs[k-1].n-rs[k-1].npre <= rs[k].k, "a variable-length record does not extend past the next edge")
				}
			}
		}
	}
	vObserve("nA", int64(len(recA)))
	vObserve("nB", int64(len(recB)))
	vWitness("c08blocks-end")
}
