package dastard

// C03 — Abaco ingest: exact demultiplexing, gap filling, continuous frame numbering.

import (
	"time"

	"github.com/usnistgov/dastard/packets"
)

// c03Packet builds a data packet with the given sequence number through the public
// constructors (NewData advances the sequence number by one).
func c03Packet(seq uint32, nchan, frames int, tag string, wide bool) (*packets.Packet, []int) {
	p := packets.NewPacket(10, 20, seq-1, 0)
	n := nchan * frames
	vals := make([]int, n)
	if wide {
		d := make([]int32, n)
		for i := range d {
			d[i] = vSymI32(tag + string(rune('a'+i)))
			vals[i] = int(d[i])
		}
		p.NewData(d, []int16{int16(nchan)})
	} else {
		d := make([]int16, n)
		for i := range d {
			d[i] = vSymI16(tag + string(rune('a'+i)))
			vals[i] = int(d[i])
		}
		p.NewData(d, []int16{int16(nchan)})
	}
	return p, vals
}

// verifC03Fill: fillMissingPackets from an arbitrary valid group state: k packets left over
// from earlier ticks (contiguous, ending at lastSN) followed by m new arrivals with
// increasing sequence numbers and gaps of 0..maxgap lost packets.
func verifC03Fill() {
	nchan := vRange("nchan", 1, vParam("maxchan", 2))
	frames := vRange("frames", 1, vParam("maxframes", 2))
	k := vRange("leftover", 0, vParam("maxleftover", 2))
	m := vRange("arrivals", 0, vParam("maxarrivals", 2))
	maxgap := vParam("maxgap", 2)
	g := NewAbacoGroup(GroupIndex{Firstchan: 0, Nchan: nchan}, AbacoUnwrapOptions{})
	sn0 := vSymU32("sn0")
	vAssume(sn0 >= 1 && sn0 < 1<<31) // no 32-bit wrap of sequence numbers (stated bound)
	var orig []*packets.Packet
	sn := sn0
	for i := 0; i < k; i++ {
		p, _ := c03Packet(sn, nchan, frames, "L"+string(rune('0'+i)), false)
		orig = append(orig, p)
		sn++
	}
	g.lastSN = sn - 1 // = sn0-1 when nothing is left over
	lost := 0
	for i := 0; i < m; i++ {
		gap := vRange("gap"+string(rune('0'+i)), 0, maxgap)
		sn += uint32(gap)
		lost += gap
		p, _ := c03Packet(sn, nchan, frames, "N"+string(rune('0'+i)), false)
		orig = append(orig, p)
		sn++
	}
	for _, p := range orig {
		g.enqueuePacket(p, time.Unix(0, 0))
	}
	lastBefore := g.lastSN
	bytesAdded, packetsAdded, framesAdded := g.fillMissingPackets()
	if k+m == 0 {
		vCheck(packetsAdded == 0 && framesAdded == 0 && bytesAdded == 0 && len(g.queue) == 0 && g.lastSN == lastBefore, "empty queue: nothing happens")
		vWitness("c03fill-empty")
		return
	}
	vCheck(packetsAdded == lost, "one filler packet per lost packet")
	vCheck(framesAdded == lost*frames, "frames added = lost packets x frames per packet")
	vCheck(len(g.queue) == k+m+lost, "queue holds arrived + filler packets")
	first := g.queue[0].SequenceNumber()
	vCheck(first == sn0, "queue still starts at its first packet")
	for i, p := range g.queue {
		vCheck(p.SequenceNumber() == first+uint32(i), "sequence numbers in the queue are contiguous")
		vCheck(p.Frames() == frames, "every packet (filler or not) carries the group's frame count")
	}
	// originals untouched and in order
	j := 0
	for _, p := range g.queue {
		if j < len(orig) && p == orig[j] {
			j++
		}
	}
	vCheck(j == len(orig), "arrived packets are all still queued, in order")
	vCheck(g.lastSN == sn-1, "last sequence number seen = last queued packet")
	if lost > 0 {
		vCheck(bytesAdded == lost*orig[len(orig)-1].Length(), "bytes added = lost packets x packet size")
	}
	vObserve("added", int64(packetsAdded))
	vWitness("c03fill-end")
}

// verifC03Demux: demuxData de-interleaves frames x channels of queued packets exactly, in
// packet order, up to the requested number of frames; consumed packets leave the queue.
func verifC03Demux() {
	nchan := vRange("nchan", 1, vParam("maxchan", 3))
	frames := vRange("frames", 1, vParam("maxframes", 2))
	npk := vRange("npackets", 1, vParam("maxpackets", 3))
	wide := vRange("wide", 0, 1) == 1
	take := vRange("takepackets", 1, npk)
	g := NewAbacoGroup(GroupIndex{Firstchan: 0, Nchan: nchan}, AbacoUnwrapOptions{})
	var vals [][]int
	for i := 0; i < npk; i++ {
		p, v := c03Packet(uint32(100+i), nchan, frames, "P"+string(rune('0'+i)), wide)
		g.enqueuePacket(p, time.Unix(0, 0))
		vals = append(vals, v)
	}
	vCheck(g.countSamplesInQueue() == npk*frames, "countSamplesInQueue = frames queued")
	want := take * frames
	dc := make([][]RawType, nchan)
	for c := range dc {
		dc[c] = make([]RawType, want)
	}
	nbytes := g.demuxData(dc, want)
	wordlen := 2
	if wide {
		wordlen = 4
	}
	vCheck(nbytes == take*frames*nchan*wordlen, "bytes processed = packets consumed x payload size")
	vCheck(len(g.queue) == npk-take, "consumed packets leave the queue")
	for i := 0; i < take; i++ {
		for f := 0; f < frames; f++ {
			for c := 0; c < nchan; c++ {
				v := vals[i][f*nchan+c]
				exp := RawType(v)
				if wide {
					exp = RawType(int32(v) / 0x10000)
				}
				vCheck(dc[c][i*frames+f] == exp, "channel c, frame f of packet i lands at sample i*frames+f of channel c")
			}
		}
	}
	vObserve("bytes", int64(nbytes))
	vWitness("c03demux-end")
}

// ---- tick level: the real readerMainLoop against scripted packet producers

type c03Producer struct {
	as     *AbacoSource
	script [][]*packets.Packet // packets delivered at tick 0, 1, ...
	tick   int
	last   bool // the producer that ends the run once every script is exhausted
	others []*c03Producer
}

func (pp *c03Producer) ReadAllPackets() ([]*packets.Packet, error) {
	if pp.tick >= len(pp.script) {
		if pp.last {
			closeIfOpen(pp.as.abortSelf)
		}
		return nil, nil
	}
	out := pp.script[pp.tick]
	pp.tick++
	return out, nil
}
func (pp *c03Producer) samplePackets(d time.Duration) ([]*packets.Packet, error) { return nil, nil }
func (pp *c03Producer) start() error                                             { return nil }
func (pp *c03Producer) discardStale() error                                      { return nil }
func (pp *c03Producer) stop() error                                              { return nil }

// verifC03Ticks: 1..2 channel groups fed by scripted producers over a few read ticks with a
// symbolic arrival/loss pattern (empty ticks, one group lagging another); the blocks emitted
// must hold exactly the arrived samples in sequence order with filler for lost packets,
// equal length on all channels, contiguous frame numbers, and the right dropped-frame count.
func verifC03Ticks() {
	vTimersQuiet()
	vClockConcrete()
	ngroups := vRange("ngroups", 1, vParam("maxgroups", 2))
	nticks := vRange("nticks", 1, vParam("maxticks", 2))
	frames := vRange("frames", 1, vParam("maxframes", 2))
	maxarr := vParam("maxarrivals", 2)
	order := vRange("maporder", 0, ngroups-1)
	as := new(AbacoSource)
	as.name = "Abaco"
	as.sampleRate = 100000
	as.samplePeriod = 10 * time.Microsecond
	as.readPeriod = 50 * time.Millisecond
	as.abortSelf = make(chan struct{})
	as.buffersChan = make(chan AbacoBuffersType, 100)
	as.groups = make(map[GroupIndex]*AbacoGroup)
	nchanOf := []int{vParam("nchan0", 2), vParam("nchan1", 1)}
	base := []uint32{1000, 5000}
	var gis []GroupIndex
	first := 0
	for g := 0; g < ngroups; g++ {
		gis = append(gis, GroupIndex{Firstchan: first, Nchan: nchanOf[g]})
		first += nchanOf[g]
		as.nchan += nchanOf[g]
	}
	// start-up skew: sampling may have ended at different points for the groups, so that a
	// group's first queued packet is skew[g] packets after the common origin; the packets of
	// the other groups that predate the latest start are trimmed away by the reader
	skew := make([]int, ngroups)
	if ngroups > 1 {
		skew[vRange("skewgroup", 0, ngroups-1)] = vRange("skew", 0, vParam("maxskew", 2))
	}
	for k := 0; k < ngroups; k++ { // map insertion order is the iteration order under the engine
		g := (k + order) % ngroups
		grp := NewAbacoGroup(gis[g], AbacoUnwrapOptions{})
		grp.seqnumsync = base[g]
		grp.lastSN = base[g] + uint32(skew[g]) - 1
		as.groups[gis[g]] = grp
	}
	as.groupKeysSorted = gis
	// scripts: per tick and group, 0..maxarr arriving packets, each preceded by 0..1 lost ones;
	// after the last scripted tick every group receives the packets up to a common final
	// sequence number so that everything queued is eventually emitted.
	type sent struct {
		arrived bool
		vals    []int
	}
	hist := make([][]sent, ngroups) // hist[g][global seq]
	for g := 0; g < ngroups; g++ {
		for i := 0; i < skew[g]; i++ {
			hist[g] = append(hist[g], sent{}) // before this group's start: never delivered, never filled
		}
	}
	start := 0 // the common start = the latest first packet
	for g := 0; g < ngroups; g++ {
		if skew[g] > start {
			start = skew[g]
		}
	}
	prods := make([]*c03Producer, ngroups)
	for g := 0; g < ngroups; g++ {
		prods[g] = &c03Producer{as: as}
		as.producers = append(as.producers, prods[g])
	}
	prods[ngroups-1].last = true
	for t := 0; t < nticks; t++ {
		for g := 0; g < ngroups; g++ {
			tag := "g" + string(rune('0'+g)) + "t" + string(rune('0'+t))
			n := vRange("arr"+tag, 0, maxarr)
			var pk []*packets.Packet
			for i := 0; i < n; i++ {
				if vRange("lost"+tag+string(rune('0'+i)), 0, 1) == 1 {
					hist[g] = append(hist[g], sent{})
				}
				sn := base[g] + uint32(len(hist[g]))
				p, v := c03PacketOff(sn, gis[g], frames, tag+"p"+string(rune('0'+i)))
				hist[g] = append(hist[g], sent{true, v})
				pk = append(pk, p)
			}
			prods[g].script = append(prods[g].script, pk)
		}
	}
	final := 0
	for g := 0; g < ngroups; g++ {
		if len(hist[g]) > final {
			final = len(hist[g])
		}
	}
	final++ // one more packet for everybody: the catch-up tick
	for g := 0; g < ngroups; g++ {
		var pk []*packets.Packet
		if len(hist[g]) < final-1 && vRange("catchuplost"+string(rune('0'+g)), 0, 1) == 1 {
			for len(hist[g]) < final-1 { // the packets in between are lost
				hist[g] = append(hist[g], sent{})
			}
		}
		for len(hist[g]) < final {
			sn := base[g] + uint32(len(hist[g]))
			p, v := c03PacketOff(sn, gis[g], frames, "g"+string(rune('0'+g))+"c"+string(rune('a'+len(hist[g]))))
			hist[g] = append(hist[g], sent{true, v})
			pk = append(pk, p)
		}
		prods[g].script = append(prods[g].script, pk)
	}
	go as.readerMainLoop()
	var bufs []AbacoBuffersType
	for b := range as.buffersChan {
		bufs = append(bufs, b)
	}
	// oracle
	out := make([][]RawType, as.nchan)
	dropped := 0
	nextFrame := FrameIndex(0)
	for _, b := range bufs {
		vCheck(len(b.datacopies) == as.nchan, "a buffer has one slice per channel")
		n := len(b.datacopies[0])
		for c := range b.datacopies {
			vCheck(len(b.datacopies[c]) == n, "every channel of a block has the same length")
			out[c] = append(out[c], b.datacopies[c]...)
		}
		dropped += b.droppedFrames
		block := as.distributeData(b)
		vCheck(block.nSamp == n && len(block.segments) == as.nchan, "block has one segment per channel")
		for c := range block.segments {
			vCheck(block.segments[c].firstFrameIndex == nextFrame, "block frame numbers are contiguous")
		}
		nextFrame += FrameIndex(n)
	}
	lostTotal := 0
	ch := 0
	for g := 0; g < ngroups; g++ {
		for c := 0; c < nchanOf[g]; c++ {
			vCheck(len(out[ch]) == (final-start)*frames, "per-channel sample count = frames spanned by first through last sequence number")
			if len(out[ch]) == (final-start)*frames {
				for s := start; s < final; s++ {
					if !hist[g][s].arrived {
						continue
					}
					for f := 0; f < frames; f++ {
						vCheck(out[ch][(s-start)*frames+f] == RawType(hist[g][s].vals[f*nchanOf[g]+c]), "sample of an arrived packet sits at its sequence position (groups stay aligned)")
					}
				}
			}
			ch++
		}
		for s := skew[g]; s < final; s++ {
			if !hist[g][s].arrived {
				lostTotal++
			}
		}
	}
	vCheck(dropped == lostTotal*frames, "reported dropped frames = frames filled in")
	vObserve("nbufs", int64(len(bufs)))
	vObserve("dropped", int64(dropped))
	vWitness("c03ticks-end")
}

func c03PacketOff(seq uint32, gi GroupIndex, frames int, tag string) (*packets.Packet, []int) {
	p := packets.NewPacket(10, 20, seq-1, gi.Firstchan)
	n := gi.Nchan * frames
	vals := make([]int, n)
	d := make([]int16, n)
	for i := range d {
		d[i] = vSymI16(tag + string(rune('a'+i)))
		vals[i] = int(d[i])
	}
	p.NewData(d, []int16{int16(gi.Nchan)})
	return p, vals
}
