package dastard

// C06 — write control: the reported writing state always matches what channels really do.

import (
	"fmt"
	"os"
	"time"

	"gonum.org/v1/gonum/mat"
)

type c06Model struct {
	active, paused   bool
	ljh22, ljh3, off bool
	patterns         []string
}

func c06Rig() *tRig {
	rig := newTRigBase(2, 3, 4, nil)
	ds := rig.ds
	ds.rowColCodes = make([]RowColCode, 2)
	for i := range ds.rowColCodes {
		ds.rowColCodes[i] = rcCode(0, i, 1, 2)
	}
	base := os.Getenv("VERIF_WORK") // natively a scratch directory; "" under the engine
	if base == "" {
		base = "/data"
	}
	ds.writingState.BasePath = base
	// channel 1 has projectors (eligible for OFF files), channel 0 has none
	P := mat.NewDense(1, 4, []float64{1, 0, 0, 0})
	B := mat.NewDense(4, 1, []float64{1, 0, 0, 0})
	vCheck(ds.ConfigureProjectorsBases(1, P, B, "model") == nil, "projectors accepted")
	return rig
}

func c06Record(c int, tag string) *DataRecord {
	rec := &DataRecord{data: make([]RawType, 4), presamples: 3, channelIndex: c,
		trigFrame: FrameIndex(vSymI64("frame" + tag)), trigTime: time.Unix(0, 1700000000000000000)}
	for i := range rec.data {
		rec.data[i] = RawType(vSymU16("d" + tag + string(rune('a'+i))))
	}
	if c == 1 {
		rec.modelCoefs = []float64{1.5}
	}
	return rec
}

type c06Counts struct{ ljh22, ljh3, off int }

func c06Written(dsp *DataStreamProcessor) c06Counts {
	var n c06Counts
	if dsp.LJH22 != nil {
		n.ljh22 = dsp.LJH22.RecordsWritten
	}
	if dsp.LJH3 != nil {
		n.ljh3 = dsp.LJH3.RecordsWritten
	}
	if dsp.OFF != nil {
		n.off = dsp.OFF.RecordsWritten()
	}
	return n
}

var c06Requests = []string{"START", "STOP", "PAUSE", "UNPAUSE", "UNPAUSE label", "UNPAUSEx", "bogus", "start", "Pause"}

// c06Step issues one request, checks the reply and the reported state against the model,
// then publishes one record per channel and checks where it went.
func c06Step(rig *tRig, m *c06Model, step string) {
	ds := rig.ds
	r := vRange("req"+step, 0, len(c06Requests)-1)
	req := c06Requests[r]
	cfg := &WriteControlConfig{Request: req}
	isStart := req == "START" || req == "start"
	if isStart {
		mask := vRange("types"+step, 0, 7)
		cfg.WriteLJH22, cfg.WriteLJH3, cfg.WriteOFF = mask&1 != 0, mask&2 != 0, mask&4 != 0
	}
	before := *ds.ComputeWritingState()
	err := ds.WriteControl(cfg)
	// the model: what the property says should happen
	wantErr := false
	switch {
	case isStart:
		if m.active || !(cfg.WriteLJH22 || cfg.WriteLJH3 || cfg.WriteOFF) {
			wantErr = true
		} else {
			m.active, m.paused = true, false
			m.ljh22, m.ljh3, m.off = cfg.WriteLJH22, cfg.WriteLJH3, cfg.WriteOFF
		}
	case req == "STOP":
		m.active, m.paused = false, false
	case req == "PAUSE" || req == "Pause":
		m.paused = true
	case req == "UNPAUSE":
		m.paused = false
	case req == "UNPAUSE label":
		if m.active {
			m.paused = false
		} else {
			wantErr = true // a label can only be recorded while writing is active
		}
	default:
		wantErr = true
	}
	vCheck((err != nil) == wantErr, "request accepted/rejected as the protocol says")
	ws := ds.ComputeWritingState()
	if err != nil {
		vCheck(ws.Active == before.Active && ws.Paused == before.Paused && ws.FilenamePattern == before.FilenamePattern &&
			ws.WriteLJH22 == before.WriteLJH22 && ws.WriteLJH3 == before.WriteLJH3 && ws.WriteOFF == before.WriteOFF,
			"a rejected request does not change the reported state")
	}
	vCheck(ws.Active == m.active, "reported Active agrees with the request history")
	vCheck(ws.Paused == m.paused, "reported Paused agrees with the request history")
	vCheck((ws.FilenamePattern != "") == m.active, "a file pattern is reported exactly while writing is active")
	if m.active {
		vCheck(ws.WriteLJH22 == m.ljh22 && ws.WriteLJH3 == m.ljh3 && ws.WriteOFF == m.off, "reported file types are the ones requested")
	}
	if isStart && err == nil {
		for _, p := range m.patterns {
			vCheck(p != ws.FilenamePattern, "each successful START writes into a new numbered directory")
		}
		m.patterns = append(m.patterns, ws.FilenamePattern)
	}
	if req == "STOP" {
		vCheck(vFsOpenCount() == 0, "STOP closes all files")
		for _, dsp := range ds.processors {
			vCheck(!dsp.HasLJH22() && !dsp.HasLJH3() && !dsp.HasOFF(), "STOP removes every writer")
		}
	}
	// behaviour: publish one record on each channel
	for c, dsp := range ds.processors {
		n0 := c06Written(dsp)
		rec := c06Record(c, step+string(rune('0'+c)))
		perr := dsp.DataPublisher.PublishData([]*DataRecord{rec})
		vCheck(perr == nil, "publishing a record succeeds")
		n1 := c06Written(dsp)
		on := m.active && !m.paused
		vCheck((n1.ljh22-n0.ljh22 == 1) == (on && m.ljh22), "LJH2.2 record stored exactly when active, unpaused and the type is enabled")
		vCheck((n1.ljh3-n0.ljh3 == 1) == (on && m.ljh3), "LJH3 record stored exactly when active, unpaused and the type is enabled")
		vCheck((n1.off-n0.off == 1) == (on && m.off && c == 1), "OFF record stored exactly when active, unpaused, enabled and the channel has projectors")
		vCheck(n1.ljh22-n0.ljh22 <= 1 && n1.ljh3-n0.ljh3 <= 1 && n1.off-n0.off <= 1, "a record is stored at most once per file")
		// the periodic flush (also what PAUSE does): afterwards every file that has been given
		// a record holds data on disk, whichever other file types are active
		dsp.DataPublisher.Flush()
		if dsp.LJH22 != nil && n1.ljh22 > 0 {
			vCheck(vFsSize(dsp.LJH22.FileName) >= 24*n1.ljh22, "after a flush the LJH2.2 file holds the records stored so far")
		}
		if dsp.LJH3 != nil && n1.ljh3 > 0 {
			vCheck(vFsSize(dsp.LJH3.FileName) >= 32*n1.ljh3, "after a flush the LJH3 file holds the records stored so far")
		}
		if dsp.OFF != nil && n1.off > 0 {
			vCheck(vFsSize(fmt.Sprintf(ds.ComputeWritingState().FilenamePattern, dsp.Name, "off")) >= 40*n1.off, "after a flush the OFF file holds the records stored so far")
		}
	}
	for {
		select {
		case <-rig.pub:
			continue
		case <-rig.sum:
			continue
		default:
		}
		break
	}
}

// verifC06: all request sequences of length nreq from the state after PrepareRun.
func verifC06() {
	rig := c06Rig()
	m := &c06Model{}
	nreq := vParam("nreq", 2)
	for k := 0; k < nreq; k++ {
		c06Step(rig, m, fmt.Sprintf("%d", k))
	}
	// final STOP: everything closed
	vCheck(rig.ds.WriteControl(&WriteControlConfig{Request: "STOP"}) == nil, "final STOP succeeds")
	vCheck(vFsOpenCount() == 0, "after the final STOP no file is open")
	vObserve("nstarts", int64(len(m.patterns)))
	vWitness("c06-end")
}
