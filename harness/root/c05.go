package dastard

// C05 — output files (LJH 2.2, LJH 3, OFF) are well-formed and hold exactly the records.

import (
	"math"
	"os"
	"time"

	"gonum.org/v1/gonum/mat"
)

func c05le(b []byte, off, n int) uint64 {
	var v uint64
	for j := n - 1; j >= 0; j-- {
		v = v<<8 | uint64(b[off+j])
	}
	return v
}

type c05Rec struct {
	rec *DataRecord
}

// verifC05Files: one DataPublisher with one writer type installed through the real Set*
// call; a symbolic sequence of publish / flush / pause / unpause; after Remove* (close) the
// file is header + exactly the records accepted while unpaused, decoded field by field.
func verifC05Files() {
	kind := vRange("kind", 0, 2) // 0 LJH2.2, 1 LJH3, 2 OFF
	nsamp := vRange("nsamp", 1, vParam("maxnsamp", 3))
	npre := vRange("npre", 0, nsamp-1)
	nbases := vRange("nbases", 1, vParam("maxbases", 2))
	base := os.Getenv("VERIF_WORK")
	if base == "" {
		base = "/data"
		os.MkdirAll(base, 0755)
	}
	name := base + "/chanfile.out"
	dp := new(DataPublisher)
	// geometry parameters are case-split (a symbolic x symbolic 64-bit product is hard to
	// re-assemble from file bytes); frame numbers, times and samples stay symbolic
	subDiv, subOff := 64, 5
	if kind == 0 { // only LJH2.2 records depend on them
		subDiv = []int{3, 64, 1}[vRange("subframeDivisions", 0, vParam("ndivisions", 2)-1)]
		subOff = []int{5, 0}[vRange("subframeOffset", 0, vParam("noffsets", 1)-1)]
	}
	var P, B *mat.Dense
	var pdat, bdat []float64
	switch kind {
	case 0:
		dp.SetLJH22(5, npre, nsamp, 1, 1e-5, time.Unix(0, 1700000000000000000), 4, 2, 16, subDiv, 1, 1, subOff,
			name, "source", "chan7", 7, Pixel{})
	case 1:
		dp.SetLJH3(5, 1e-5, 4, 2, subDiv, subOff, name)
	default:
		pdat = make([]float64, nbases*nsamp)
		bdat = make([]float64, nsamp*nbases)
		for i := range pdat {
			pdat[i] = math.Float64frombits(vSymU64("P" + string(rune('a'+i))))
			bdat[i] = math.Float64frombits(vSymU64("B" + string(rune('a'+i))))
		}
		P = mat.NewDense(nbases, nsamp, pdat)
		B = mat.NewDense(nsamp, nbases, bdat)
		dp.SetOFF(5, npre, nsamp, 1, 1e-5, time.Unix(0, 1700000000000000000), 4, 2, 16, subDiv, 1, 1, subOff,
			name, "source", "chan7", 7, P, B, "model", Pixel{})
	}
	var want []*DataRecord
	nops := vParam("nops", 3)
	nrecTotal := 0
	for k := 0; k < nops; k++ {
		ks := string(rune('0' + k))
		switch vRange("op"+ks, 0, 4) {
		case 0, 1: // publish one or two records
			n := 1 + vRange("two"+ks, 0, 1)
			var recs []*DataRecord
			for i := 0; i < n; i++ {
				tag := ks + string(rune('a'+i))
				L := nsamp
				if nsamp >= 2 && vRange("short"+tag, 0, 1) == 1 {
					L = nsamp - 1 // a shorter (variable-length edge-multi) record
				}
				rec := &DataRecord{data: make([]RawType, L), presamples: npre, channelIndex: 5,
					trigFrame: FrameIndex(vSymI64("frame" + tag)), trigTime: time.Unix(0, vSymI64("nanos"+tag))}
				for j := range rec.data {
					rec.data[j] = RawType(vSymU16("d" + tag + string(rune('a'+j))))
				}
				rec.pretrigMean = math.Float64frombits(vSymU64("ptm" + tag))
				rec.pretrigDelta = math.Float64frombits(vSymU64("ptd" + tag))
				rec.residualStdDev = math.Float64frombits(vSymU64("rsd" + tag))
				rec.modelCoefs = make([]float64, nbases)
				for j := range rec.modelCoefs {
					rec.modelCoefs[j] = math.Float64frombits(vSymU64("mc" + tag + string(rune('a'+j))))
				}
				recs = append(recs, rec)
				nrecTotal++
			}
			vCheck(dp.PublishData(recs) == nil, "PublishData succeeds")
			if !dp.WritingPaused {
				for _, rec := range recs {
					// LJH2.2 files have a fixed record length: other lengths are refused by the writer
					if kind != 0 || len(rec.data) == nsamp {
						want = append(want, rec)
					}
				}
			}
		case 2:
			dp.Flush()
		case 3:
			dp.SetPause(true)
		case 4:
			dp.SetPause(false)
		}
	}
	switch kind {
	case 0:
		dp.RemoveLJH22()
	case 1:
		dp.RemoveLJH3()
	default:
		dp.RemoveOFF()
	}
	vCheck(vFsOpenCount() == 0, "closing the writer closes the file")
	if len(want) == 0 {
		if vFsExists(name) {
			// only possible when a record was handed to the writer and refused by it (a short
			// record offered to a fixed-length LJH2.2 file): header only, no partial record
			h := string(vFsBytes(name))
			vCheck(kind == 0 && len(h) > 15 && h[len(h)-15:] == "#End of Header\n", "a file without accepted records holds at most its header")
		}
		vWitness("c05files-none")
		return
	}
	b := vFsBytes(name)
	sizeOf := func(rec *DataRecord) int {
		switch kind {
		case 0:
			return 16 + 2*nsamp
		case 1:
			return 24 + 2*len(rec.data)
		}
		return 36 + 4*nbases
	}
	total := 0
	for _, rec := range want {
		total += sizeOf(rec)
	}
	hl := len(b) - total
	vCheck(hl > 0, "file length = header + sum of record sizes (no partial record)")
	if hl <= 0 {
		return
	}
	if kind == 0 {
		h := string(b[:hl])
		vCheck(len(h) > 26 && h[:25] == "#LJH Memorial File Format", "LJH2.2 header comes first")
		vCheck(h[hl-15:] == "#End of Header\n", "LJH2.2 header is complete and written once, directly before the records")
	}
	if kind == 2 {
		// the binary matrices close the OFF header: projectors then basis, float64 little-endian
		mo := hl - 16*nbases*nsamp
		vCheck(mo > 0, "OFF header holds the JSON text and both matrices")
		if mo > 0 {
			vCheck(b[mo-1] == '\n', "OFF JSON text ends with a newline before the matrices")
			for i := range pdat {
				vCheck(c05le(b, mo+8*i, 8) == math.Float64bits(pdat[i]), "OFF header carries the projectors as float64")
				vCheck(c05le(b, mo+8*(len(pdat)+i), 8) == math.Float64bits(bdat[i]), "OFF header carries the basis as float64")
			}
		}
	}
	o := hl
	for _, rec := range want {
		recsize := sizeOf(rec)
		micros := rec.trigTime.UnixNano() / 1000
		switch kind {
		case 0:
			vCheck(int64(c05le(b, o, 8)) == int64(rec.trigFrame)*int64(subDiv)+int64(subOff), "LJH2.2 record: sub-frame count = frame x divisions + offset")
			vCheck(int64(c05le(b, o+8, 8)) == micros, "LJH2.2 record: timestamp in microseconds")
			for j := 0; j < nsamp; j++ {
				vCheck(uint16(c05le(b, o+16+2*j, 2)) == uint16(rec.data[j]), "LJH2.2 record: exact samples")
			}
		case 1:
			vCheck(int32(c05le(b, o, 4)) == int32(len(rec.data)), "LJH3 record: length")
			vCheck(int32(c05le(b, o+4, 4)) == int32(npre+1), "LJH3 record: first rising sample = pre-trigger length + 1")
			vCheck(int64(c05le(b, o+8, 8)) == int64(rec.trigFrame), "LJH3 record: frame count")
			vCheck(int64(c05le(b, o+16, 8)) == micros, "LJH3 record: timestamp in microseconds")
			for j := 0; j < len(rec.data); j++ {
				vCheck(uint16(c05le(b, o+24+2*j, 2)) == uint16(rec.data[j]), "LJH3 record: exact samples")
			}
		default:
			vCheck(int32(c05le(b, o, 4)) == int32(len(rec.data)), "OFF record: record samples")
			vCheck(int32(c05le(b, o+4, 4)) == int32(npre), "OFF record: pre-trigger samples")
			vCheck(int64(c05le(b, o+8, 8)) == int64(rec.trigFrame), "OFF record: frame count")
			vCheck(int64(c05le(b, o+16, 8)) == rec.trigTime.UnixNano(), "OFF record: timestamp in nanoseconds")
			vCheck(uint32(c05le(b, o+24, 4)) == math.Float32bits(float32(rec.pretrigMean)), "OFF record: pretrigger mean")
			vCheck(uint32(c05le(b, o+28, 4)) == math.Float32bits(float32(rec.pretrigDelta)), "OFF record: pretrigger delta")
			vCheck(uint32(c05le(b, o+32, 4)) == math.Float32bits(float32(rec.residualStdDev)), "OFF record: residual std dev")
			for j := 0; j < nbases; j++ {
				vCheck(uint32(c05le(b, o+36+4*j, 4)) == math.Float32bits(float32(rec.modelCoefs[j])), "OFF record: projection coefficients as float32")
			}
		}
		o += recsize
	}
	vObserve("nrec", int64(len(want)))
	vWitness("c05files-end")
}

// verifC05Header: after a START through the real writeControlStart the parameters each
// writer will print in its header are the channel's true parameters.
func verifC05Header() {
	rig := c06Rig()
	ds := rig.ds
	ds.subframeDivisions = 64
	ds.subframeOffsets = []int{3, 5}
	ds.rowColCodes[0] = rcCode(2, 1, 4, 3)
	ds.rowColCodes[1] = rcCode(3, 2, 4, 3)
	vCheck(ds.WriteControl(&WriteControlConfig{Request: "START", WriteLJH22: true, WriteLJH3: true, WriteOFF: true}) == nil, "START accepted")
	for i, dsp := range ds.processors {
		rc := ds.rowColCodes[i]
		w := dsp.LJH22
		vCheck(w != nil && dsp.LJH3 != nil, "every channel gets LJH writers")
		if w == nil || dsp.LJH3 == nil {
			continue
		}
		vCheck(w.ChannelIndex == i && w.ChanName == ds.chanNames[i] && w.ChannelNumberMatchingName == ds.chanNumbers[i] && w.SourceName == ds.name, "LJH2.2 header: channel identity")
		vCheck(w.Presamples == dsp.NPresamples && w.Samples == dsp.NSamples && w.FramesPerSample == 1, "LJH2.2 header: record and pre-trigger length")
		vCheck(w.Timebase == 1.0/dsp.SampleRate, "LJH2.2 header: time base")
		vCheck(w.NumberOfRows == rc.rows() && w.NumberOfColumns == rc.cols() && w.RowNum == rc.row() && w.ColumnNum == rc.col() && w.NumberOfChans == ds.nchan, "LJH2.2 header: geometry")
		vCheck(w.SubframeDivisions == ds.subframeDivisions && w.SubframeOffset == ds.subframeOffsets[i], "LJH2.2 header: sub-frame parameters")
		w3 := dsp.LJH3
		vCheck(w3.ChannelIndex == i && w3.Timebase == 1.0/dsp.SampleRate, "LJH3 header: channel and time base")
		vCheck(w3.NumberOfRows == rc.rows() && w3.NumberOfColumns == rc.cols() && w3.Row == rc.row() && w3.Column == rc.col(), "LJH3 header: geometry")
		vCheck(w3.SubframeDivisions == ds.subframeDivisions && w3.SubframeOffset == ds.subframeOffsets[i], "LJH3 header: sub-frame parameters")
		if i == 1 {
			o := dsp.OFF
			vCheck(o != nil, "the channel with projectors gets an OFF writer")
			if o != nil {
				vCheck(o.ChannelIndex == i && o.ChannelName == ds.chanNames[i] && o.ChannelNumberMatchingName == ds.chanNumbers[i], "OFF header: channel identity")
				vCheck(o.MaxPresamples == dsp.NPresamples && o.MaxSamples == dsp.NSamples && o.FramePeriodSeconds == 1.0/dsp.SampleRate, "OFF header: lengths and time base")
				vCheck(o.NumberOfBases == 1 && o.ModelInfo.Projectors.Rows == 1 && o.ModelInfo.Projectors.Cols == 4 && o.ModelInfo.Basis.Rows == 4 && o.ModelInfo.Basis.Cols == 1, "OFF header: projector and basis shapes")
				vCheck(o.ReadoutInfo.NumberOfRows == rc.rows() && o.ReadoutInfo.NumberOfColumns == rc.cols() && o.ReadoutInfo.RowNum == rc.row() && o.ReadoutInfo.ColumnNum == rc.col() &&
					o.ReadoutInfo.SubframeDivisions == ds.subframeDivisions && o.ReadoutInfo.SubframeOffset == ds.subframeOffsets[i] && o.ReadoutInfo.NumberOfChans == ds.nchan, "OFF header: geometry and sub-frame parameters")
			}
		} else {
			vCheck(dsp.OFF == nil, "a channel without projectors gets no OFF writer")
		}
	}
	vCheck(ds.WriteControl(&WriteControlConfig{Request: "STOP"}) == nil, "STOP succeeds")
	vObserve("n", int64(len(ds.processors)))
	vWitness("c05header-end")
}
