package dastard

// C04 — Lancero ingest: frame alignment, channel order, err/fb pairing, external triggers.

import (
	"time"
)

// c04Card is a scripted in-memory card implementing lancero.Lanceroer: a byte stream of
// whole frames, handed out in chunks whose ends the harness chooses.
type c04Card struct {
	data     []byte
	released int
	avail    int   // bytes the "driver" has made available so far
	ends     []int // successive values of avail, one per AvailableBuffer call
	calls    int
	now      int64
	times    []int64 // time stamp returned with each call
	relLog   []int
}

func (c *c04Card) ChangeRingBuffer(int, int) error                { return nil }
func (c *c04Card) Close() error                                   { return nil }
func (c *c04Card) StartAdapter(int, int) error                    { return nil }
func (c *c04Card) StopAdapter() error                             { return nil }
func (c *c04Card) CollectorConfigure(int, int, uint32, int) error { return nil }
func (c *c04Card) StartCollector(bool) error                      { return nil }
func (c *c04Card) StopCollector() error                           { return nil }
func (c *c04Card) InspectAdapter() uint32                         { return 0 }
func (c *c04Card) Wait() (time.Time, time.Duration, error) {
	return time.Unix(0, c.now), 0, nil
}
func (c *c04Card) AvailableBuffer() ([]byte, time.Time, error) {
	if c.calls < len(c.ends) {
		c.avail = c.ends[c.calls]
		c.now = c.times[c.calls]
	}
	c.calls++
	if c.avail < c.released {
		c.avail = c.released
	}
	return c.data[c.released:c.avail], time.Unix(0, c.now), nil
}
func (c *c04Card) ReleaseBytes(n int) error {
	c.released += n
	c.relLog = append(c.relLog, n)
	return nil
}

type c04Frame struct {
	err [][]uint16 // [row][col]
	fb  [][]uint16
	ext []bool // external-trigger flag per row (the card reports it in every column)
}

// c04Stream builds nframes well-formed frames: frame bit set in row 0 of every column, the
// external-trigger flag symbolic in the listed (frame,row) slots, everything else symbolic.
func c04Stream(nframes, ncols, nrows int, extSlots map[[2]int]bool) ([]byte, []c04Frame) {
	frames := make([]c04Frame, nframes)
	var b []byte
	for f := 0; f < nframes; f++ {
		fr := c04Frame{ext: make([]bool, nrows)}
		for r := 0; r < nrows; r++ {
			if extSlots[[2]int{f, r}] {
				fr.ext[r] = vSymBool("ext" + string(rune('a'+f)) + string(rune('0'+r)))
			}
			er := make([]uint16, ncols)
			fbr := make([]uint16, ncols)
			for c := 0; c < ncols; c++ {
				tag := string(rune('a'+f)) + string(rune('0'+r)) + string(rune('0'+c))
				er[c] = vSymU16("e" + tag)
				v := vSymU16("f"+tag) &^ 3
				if r == 0 {
					v |= 1 // frame bit
				}
				if fr.ext[r] {
					v |= 2
				}
				fbr[c] = v
				b = append(b, byte(er[c]), byte(er[c]>>8), byte(v), byte(v>>8))
			}
			fr.err = append(fr.err, er)
			fr.fb = append(fr.fb, fbr)
		}
		frames[f] = fr
	}
	return b, frames
}

func c04Source(card *c04Card, ncols, nrows int) *LanceroSource {
	vClockConcrete()
	vTimersQuiet()
	vStub("(*github.com/usnistgov/dastard.DataStreamProcessor).AnalyzeData")
	PubRecordsChan = make(chan []*DataRecord, 16)
	PubSummariesChan = make(chan []*DataRecord, 16)
	ls := new(LanceroSource)
	ls.name = "Lancero"
	ls.nsamp = 1
	dev := &LanceroDevice{devnum: 0, ncols: ncols, nrows: nrows, frameSize: 4 * ncols * nrows, card: card}
	ls.devices = map[int]*LanceroDevice{0: dev}
	ls.active = []*LanceroDevice{dev}
	ls.ncards = 1
	ls.nchan = 2 * ncols * nrows
	ls.sampleRate = 100000
	ls.samplePeriod = 10 * time.Microsecond
	ls.firstRowChanNum = 1
	vCheck(ls.PrepareChannels() == nil, "PrepareChannels accepts the geometry")
	vCheck(ls.PrepareRun(3, 4) == nil, "PrepareRun succeeds")
	ls.updateChanOrderMap()
	return ls
}

// verifC04Reader: the real reader goroutine + distributeData against the scripted card, for
// every chunking of the byte stream into driver reads (not frame aligned).
func verifC04Reader() {
	ncols := vRange("ncols", 1, vParam("maxcols", 2))
	nrows := vRange("nrows", 2, vParam("maxrows", 2))
	nframes := vParam("nframes", 7)
	slots := map[[2]int]bool{{1, 0}: true, {1, 1}: true, {2, 1}: true, {3, 0}: true}
	data, frames := c04Stream(nframes, ncols, nrows, slots)
	fs := 4 * ncols * nrows
	card := &c04Card{data: data}
	// two reads: the first ends anywhere from 3 frames on (word aligned), the second gets the rest
	words := len(data) / 4
	e1 := 4 * vRange("end1words", 3*ncols*nrows, words)
	card.ends = []int{e1, len(data), len(data), len(data)}
	card.times = []int64{1000000, 2000000, 3000000, 4000000}
	ls := c04Source(card, ncols, nrows)
	ls.launchLanceroReader()
	var blocks []*dataBlock
	nticks := vParam("ticks", 4)
	for tick := 0; tick < nticks; tick++ {
		vAdvance(70) // one read tick
		for more := true; more; {
			select {
			case buf, ok := <-ls.buffersChan:
				if ok {
					blocks = append(blocks, ls.distributeData(buf))
				} else {
					more = false
				}
			default:
				more = false
			}
		}
	}
	closeIfOpen(ls.abortSelf)
	// oracle over the emitted blocks
	nch := 2 * ncols * nrows
	out := make([][]RawType, nch)
	nextFirst := FrameIndex(0)
	var ext []int64
	for _, blk := range blocks {
		vCheck(len(blk.segments) == nch, "one segment per data stream")
		n := len(blk.segments[0].rawData)
		for c := range blk.segments {
			vCheck(len(blk.segments[c].rawData) == n, "all streams of a block have the same length")
			vCheck(blk.segments[c].firstFrameIndex == nextFirst, "block frame numbers are contiguous")
			out[c] = append(out[c], blk.segments[c].rawData...)
		}
		nextFirst += FrameIndex(n)
		ext = append(ext, blk.externalTriggerRowcounts...)
	}
	nf := len(out[0])
	vCheck(nf*fs <= card.released && card.released <= len(data), "bytes released to the driver = bytes consumed (whole frames)")
	vCheck(card.released == nf*fs, "every released byte was demultiplexed exactly once")
	for c := 0; c < ncols; c++ {
		for r := 0; r < nrows; r++ {
			ch := 2 * (c*nrows + r)
			lastFb := uint16(0)
			for f := 0; f < nf && f < nframes; f++ {
				vCheck(out[ch][f] == RawType(frames[f].err[r][c]), "error stream of (row,col) holds that position's error words in frame order")
				vCheck(out[ch+1][f] == RawType(lastFb), "feedback stream is delayed by one sample with its two flag bits cleared")
				lastFb = frames[f].fb[r][c] &^ 3
			}
		}
	}
	// external triggers: one count per rising edge of the flag, in time order
	var want []int64
	last := false
	for f := 0; f < nf && f < nframes; f++ {
		for r := 0; r < nrows; r++ {
			x := frames[f].ext[r]
			if x && !last {
				want = append(want, int64(f*nrows+r))
			}
			last = x
		}
	}
	vCheck(len(ext) == len(want), "one external-trigger count per rising edge of the flag")
	for i := 0; i < len(ext) && i < len(want); i++ {
		vCheck(ext[i] == want[i], "external-trigger count = frame x rows + row of the physical row where the flag rose")
	}
	vObserve("frames", int64(nf))
	vWitness("c04reader-end")
}

// verifC04Gap: a word-aligned gap of case-split position and length is cut out of the byte
// stream after the first read: the stream is re-aligned to the next frame boundary, the loss
// is reported, and block frame numbers never go backwards.
func verifC04Gap() {
	ncols := vRange("ncols", 1, vParam("maxcols", 2))
	nrows := 2
	nframes := vParam("nframes", 12)
	data, frames := c04Stream(nframes, ncols, nrows, nil)
	fw := ncols * nrows // words per frame
	fs := 4 * fw
	// first read: exactly 4 whole frames; then words [g1, g1+glen) are lost
	g1 := 4*fw + vRange("gapstart", 0, fw-1)
	glen := vRange("gaplen", 1, 2*fw-1)
	if glen%fw == 0 {
		vAssume(false) // a whole number of frames lost leaves the stream aligned: not detectable from frame bits
	}
	if g1 > 4*fw {
		// bytes vanish in the middle of what one driver read returns (not at a read boundary,
		// where ring-buffer overruns strike)
		vTag("gap-inside-read")
	}
	cut := append(append([]byte(nil), data[:4*g1]...), data[4*(g1+glen):]...)
	card := &c04Card{data: cut}
	// second read: the gap plus a few frames; third read: the rest (so that a block follows the
	// one in which the loss is noticed)
	card.ends = []int{4 * fs, len(cut) - 3*fs, len(cut), len(cut), len(cut)}
	card.times = []int64{1000000, 2000000, 3000000, 4000000, 5000000}
	ls := c04Source(card, ncols, nrows)
	ls.launchLanceroReader()
	var blocks []*dataBlock
	for tick := 0; tick < 5; tick++ {
		vAdvance(70)
		for more := true; more; {
			select {
			case buf, ok := <-ls.buffersChan:
				if ok {
					blocks = append(blocks, ls.distributeData(buf))
				} else {
					more = false
				}
			default:
				more = false
			}
		}
	}
	closeIfOpen(ls.abortSelf)
	vCheck(len(blocks) >= 2, "data keep flowing after the gap")
	reported := 0
	prevEnd := FrameIndex(0)
	for i, blk := range blocks {
		seg := blk.segments[0]
		if i > 0 {
			vCheck(seg.firstFrameIndex >= prevEnd, "frame numbers given to later blocks never go backwards")
		}
		prevEnd = seg.firstFrameIndex + FrameIndex(len(seg.rawData))
		reported += seg.droppedFrames
	}
	vCheck(reported > 0, "the loss is reported")
	// every block after the first is aligned to a frame boundary: its error words are those
	// of consecutive whole original frames
	firstWhole := (g1 + glen + fw - 1) / fw // first original frame that starts after the gap
	pos := firstWhole
	for i, blk := range blocks {
		n := len(blk.segments[0].rawData)
		if i == 0 {
			vCheck(n == 4, "the first read yields the four whole frames before the gap")
			continue
		}
		for j := 0; j < n && pos+j < nframes; j++ {
			for c := 0; c < ncols; c++ {
				for r := 0; r < nrows; r++ {
					vCheck(blk.segments[2*(c*nrows+r)].rawData[j] == RawType(frames[pos+j].err[r][c]), "after the gap the stream is re-aligned to the next frame boundary")
				}
			}
		}
		pos += n
	}
	vObserve("blocks", int64(len(blocks)))
	vWitness("c04gap-end")
}
