package dastard

// C04 — Lancero ingest: frame alignment, channel order, err/fb pairing, external triggers.

import (
	"sync/atomic"
	"time"
)

// c04Card is a scripted in-memory card implementing lancero.Lanceroer: a byte stream of
// whole frames, handed out in chunks whose ends the harness chooses.
type c04Card struct {
	data     []byte
	released int
	avail    int   // bytes the "driver" has made available so far
	ends     []int // successive values of avail, one per AvailableBuffer call
	calls    int
	now      int64
	times    []int64 // time stamp returned with each call
	relLog   []int
	limit    int32 // see AvailableBuffer
}

func (c *c04Card) ChangeRingBuffer(int, int) error                { return nil }
func (c *c04Card) Close() error                                   { return nil }
func (c *c04Card) StartAdapter(int, int) error                    { return nil }
func (c *c04Card) StopAdapter() error                             { return nil }
func (c *c04Card) CollectorConfigure(int, int, uint32, int) error { return nil }
func (c *c04Card) StartCollector(bool) error                      { return nil }
func (c *c04Card) StopCollector() error                           { return nil }
func (c *c04Card) InspectAdapter() uint32                         { return 0 }
func (c *c04Card) Wait() (time.Time, time.Duration, error) {
	return time.Unix(0, c.now), 0, nil
}
func (c *c04Card) AvailableBuffer() ([]byte, time.Time, error) {
	// limit (if set): the script does not advance beyond that many entries — natively the
	// reader's own ticker calls this more often than the harness's ticks
	if lim := int(atomic.LoadInt32(&c.limit)); lim > 0 && c.calls >= lim {
		if c.avail < c.released {
			c.avail = c.released
		}
		return c.data[c.released:c.avail], time.Unix(0, c.now), nil
	}
	if c.calls < len(c.ends) {
		c.avail = c.ends[c.calls]
		c.now = c.times[c.calls]
	}
	c.calls++
	if c.avail < c.released {
		c.avail = c.released
	}
	return c.data[c.released:c.avail], time.Unix(0, c.now), nil
}
func (c *c04Card) ReleaseBytes(n int) error {
	c.released += n
	c.relLog = append(c.relLog, n)
	return nil
}

type c04Frame struct {
	err [][]uint16 // [row][col]
	fb  [][]uint16
	ext []bool // external-trigger flag per row (the card reports it in every column)
}

// c04Stream builds nframes well-formed frames: frame bit set in row 0 of every column, the
// external-trigger flag symbolic in the listed (frame,row) slots, everything else symbolic.
func c04Stream(nframes, ncols, nrows int, extSlots map[[2]int]bool) ([]byte, []c04Frame) {
	frames := make([]c04Frame, nframes)
	var b []byte
	for f := 0; f < nframes; f++ {
		fr := c04Frame{ext: make([]bool, nrows)}
		for r := 0; r < nrows; r++ {
			if extSlots[[2]int{f, r}] {
				fr.ext[r] = vSymBool("ext" + string(rune('a'+f)) + string(rune('0'+r)))
			}
			er := make([]uint16, ncols)
			fbr := make([]uint16, ncols)
			for c := 0; c < ncols; c++ {
				tag := string(rune('a'+f)) + string(rune('0'+r)) + string(rune('0'+c))
				er[c] = vSymU16("e" + tag)
				v := vSymU16("f"+tag) &^ 3
				if r == 0 {
					v |= 1 // frame bit
				}
				if fr.ext[r] {
					v |= 2
				}
				fbr[c] = v
				b = append(b, byte(er[c]), byte(er[c]>>8), byte(v), byte(v>>8))
			}
			fr.err = append(fr.err, er)
			fr.fb = append(fr.fb, fbr)
		}
		frames[f] = fr
	}
	return b, frames
}

func c04Source(card *c04Card, ncols, nrows int) *LanceroSource {
	vClockConcrete()
	vTimersQuiet()
	vStub("(*github.com/usnistgov/dastard.DataStreamProcessor).AnalyzeData")
	PubRecordsChan = make(chan []*DataRecord, 16)
	PubSummariesChan = make(chan []*DataRecord, 16)
	ls := new(LanceroSource)
	ls.name = "Lancero"
	ls.nsamp = 1
	dev := &LanceroDevice{devnum: 0, ncols: ncols, nrows: nrows, frameSize: 4 * ncols * nrows, card: card}
	ls.devices = map[int]*LanceroDevice{0: dev}
	ls.active = []*LanceroDevice{dev}
	ls.ncards = 1
	ls.nchan = 2 * ncols * nrows
	ls.sampleRate = 100000
	ls.samplePeriod = 10 * time.Microsecond
	ls.firstRowChanNum = 1
	vCheck(ls.PrepareChannels() == nil, "PrepareChannels accepts the geometry")
	vCheck(ls.PrepareRun(3, 4) == nil, "PrepareRun succeeds")
	ls.updateChanOrderMap()
	return ls
}

// verifC04Reader: the real reader goroutine + distributeData against the scripted card, for
// every chunking of the byte stream into driver reads (not frame aligned).
func verifC04Reader() {
	ncols := vRange("ncols", 1, vParam("maxcols", 2))
	nrows := vRange("nrows", 2, vParam("maxrows", 2))
	nframes := vParam("nframes", 7)
	slots := map[[2]int]bool{{1, 0}: true, {1, 1}: true, {2, 1}: true, {3, 0}: true}
	data, frames := c04Stream(nframes, ncols, nrows, slots)
	fs := 4 * ncols * nrows
	card := &c04Card{data: data}
	// two reads: the first ends anywhere from 3 frames on (word aligned), the second gets the rest
	words := len(data) / 4
	e1 := 4 * vRange("end1words", 3*ncols*nrows, words)
	card.ends = []int{e1, len(data), len(data), len(data)}
	card.times = []int64{1000000, 2000000, 3000000, 4000000}
	ls := c04Source(card, ncols, nrows)
	ls.launchLanceroReader()
	var blocks []*dataBlock
	nticks := vParam("ticks", 4)
	for tick := 0; tick < nticks; tick++ {
		vAdvance(70) // one read tick
		for more := true; more; {
			select {
			case buf, ok := <-ls.buffersChan:
				if ok {
					blocks = append(blocks, ls.distributeData(buf))
				} else {
					more = false
				}
			default:
				more = false
			}
		}
	}
	closeIfOpen(ls.abortSelf)
	// oracle over the emitted blocks
	nch := 2 * ncols * nrows
	out := make([][]RawType, nch)
	nextFirst := FrameIndex(0)
	var ext []int64
	for _, blk := range blocks {
		vCheck(len(blk.segments) == nch, "one segment per data stream")
		n := len(blk.segments[0].rawData)
		for c := range blk.segments {
			vCheck(len(blk.segments[c].rawData) == n, "all streams of a block have the same length")
			vCheck(blk.segments[c].firstFrameIndex == nextFirst, "block frame numbers are contiguous")
			out[c] = append(out[c], blk.segments[c].rawData...)
		}
		nextFirst += FrameIndex(n)
		ext = append(ext, blk.externalTriggerRowcounts...)
	}
	nf := len(out[0])
	vCheck(nf*fs <= card.released && card.released <= len(data), "bytes released to the driver = bytes consumed (whole frames)")
	vCheck(card.released == nf*fs, "every released byte was demultiplexed exactly once")
	for c := 0; c < ncols; c++ {
		for r := 0; r < nrows; r++ {
			ch := 2 * (c*nrows + r)
			lastFb := uint16(0)
			for f := 0; f < nf && f < nframes; f++ {
				vCheck(out[ch][f] == RawType(frames[f].err[r][c]), "error stream of (row,col) holds that position's error words in frame order")
				vCheck(out[ch+1][f] == RawType(lastFb), "feedback stream is delayed by one sample with its two flag bits cleared")
				lastFb = frames[f].fb[r][c] &^ 3
			}
		}
	}
	// external triggers: one count per rising edge of the flag, in time order
	var want []int64
	last := false
	for f := 0; f < nf && f < nframes; f++ {
		for r := 0; r < nrows; r++ {
			x := frames[f].ext[r]
			if x && !last {
				want = append(want, int64(f*nrows+r))
			}
			last = x
		}
	}
	vCheck(len(ext) == len(want), "one external-trigger count per rising edge of the flag")
	for i := 0; i < len(ext) && i < len(want); i++ {
		vCheck(ext[i] == want[i], "external-trigger count = frame x rows + row of the physical row where the flag rose")
	}
	vObserve("frames", int64(nf))
	vWitness("c04reader-end")
}

// verifC04Gap: a word-aligned gap of case-split position and length is cut out of the byte
// stream after the first read: the stream is re-aligned to the next frame boundary, the loss
// is reported, and block frame numbers never go backwards.
func verifC04Gap() {
	ncols := vRange("ncols", 1, vParam("maxcols", 2))
	nrows := 2
	nframes := vParam("nframes", 16)
	data, frames := c04Stream(nframes, ncols, nrows, nil)
	fw := ncols * nrows // words per frame
	fs := 4 * fw
	// first read: exactly 4 whole frames; then words [g1, g1+glen) are lost
	g1 := 4*fw + vRange("gapstart", 0, fw-1)
	glen := vRange("gaplen", 1, 2*fw-1)
	if glen%fw == 0 {
		vAssume(false) // a whole number of frames lost leaves the stream aligned: not detectable from frame bits
	}
	if g1 > 4*fw {
		// bytes vanish in the middle of what one driver read returns (not at a read boundary,
		// where ring-buffer overruns strike)
		vTag("gap-inside-read")
	}
	cut := append(append([]byte(nil), data[:4*g1]...), data[4*(g1+glen):]...)
	card := &c04Card{data: cut}
	// second read: the gap plus a few frames; third and fourth read: four more frames each (so
	// that two blocks follow the one in which the loss is noticed)
	card.ends = []int{4 * fs, len(cut) - 8*fs, len(cut) - 4*fs, len(cut), len(cut), len(cut)}
	card.times = []int64{1000000, 2000000, 3000000, 4000000, 5000000, 6000000}
	ls := c04Source(card, ncols, nrows)
	ls.launchLanceroReader()
	var blocks []*dataBlock
	for tick := 0; tick < 6; tick++ {
		vAdvance(70)
		for more := true; more; {
			select {
			case buf, ok := <-ls.buffersChan:
				if ok {
					blocks = append(blocks, ls.distributeData(buf))
				} else {
					more = false
				}
			default:
				more = false
			}
		}
	}
	closeIfOpen(ls.abortSelf)
	vCheck(len(blocks) >= 2, "data keep flowing after the gap")
	if g1 == 4*fw { // loss at a read boundary (the mid-read cases are the open known findings)
		vCheck(card.released <= len(cut), "no more bytes are released to the driver than it delivered")
		vCheck(len(cut)-card.released < 3*fs, "after the last read less than the three-frame minimum is still unreleased")
	}
	reported := 0
	prevEnd := FrameIndex(0)
	for i, blk := range blocks {
		seg := blk.segments[0]
		if i > 0 {
			vCheck(seg.firstFrameIndex >= prevEnd, "frame numbers given to later blocks never go backwards")
		}
		prevEnd = seg.firstFrameIndex + FrameIndex(len(seg.rawData))
		reported += seg.droppedFrames
	}
	vCheck(reported > 0, "the loss is reported")
	// every block after the first is aligned to a frame boundary: its error words are those
	// of consecutive whole original frames
	firstWhole := (g1 + glen + fw - 1) / fw // first original frame that starts after the gap
	pos := firstWhole
	for i, blk := range blocks {
		n := len(blk.segments[0].rawData)
		if i == 0 {
			vCheck(n == 4, "the first read yields the four whole frames before the gap")
			continue
		}
		for j := 0; j < n && pos+j < nframes; j++ {
			for c := 0; c < ncols; c++ {
				for r := 0; r < nrows; r++ {
					vCheck(blk.segments[2*(c*nrows+r)].rawData[j] == RawType(frames[pos+j].err[r][c]), "after the gap the stream is re-aligned to the next frame boundary")
				}
			}
		}
		pos += n
	}
	vObserve("blocks", int64(len(blocks)))
	vWitness("c04gap-end")
}

// c04MixWant is the integer reference for one mixed feedback sample: 4*mix = 4*fb + num*err
// for the fraction num/4, rounded half away from zero, saturated at 0 and 65535.
func c04MixWant(lastFb, num, e int) int {
	m4 := 4*lastFb + num*e
	if m4 >= 4*65535 {
		return 65535
	} else if m4 < 0 {
		return 0
	}
	return (m4 + 2) / 4
}

// fractions are multiples of 1/4 (exact in binary floating point), given as numerator/4
var c04MixNums = []int{0, 2, -2, 8, -12, 1, 400}

// verifC04Mix: reads of whole frames through the real reader, getNextBlock and
// distributeData, with the mix fraction of the feedback channels set (through the real
// ConfigureMixFraction, served between blocks) before the first block and changed before
// each later one (every pair/triple of fractions from the table, so also back to zero).
// Frame contents are concrete (flag bits set, negative errors, values that saturate) so
// that the floating-point arithmetic is evaluated exactly as the hardware does; the
// arithmetic itself for all values is verifC04MixKernel.
func verifC04Mix() {
	ncols, nrows := 1, 2
	nblocks := vParam("blocks", 3)
	nframes := 3 * nblocks
	frames := make([]c04Frame, nframes)
	var data []byte
	errs := []uint16{5, 0xfffb, 300, 0x8000, 0x7fff, 1, 0xffff, 163, 0xff00, 7, 0xfff0, 9}
	fbs := []uint16{1000, 65532, 0, 4, 60000, 32768, 12, 65000, 8, 400, 16, 50000}
	for f := 0; f < nframes; f++ {
		fr := c04Frame{ext: make([]bool, nrows)}
		for r := 0; r < nrows; r++ {
			e := errs[(2*f+r)%len(errs)]
			v := fbs[(2*f+r)%len(fbs)]&^3 | 2 // external-trigger flag set in every word
			if r == 0 {
				v |= 1
			}
			fr.err = append(fr.err, []uint16{e})
			fr.fb = append(fr.fb, []uint16{v})
			data = append(data, byte(e), byte(e>>8), byte(v), byte(v>>8))
		}
		frames[f] = fr
	}
	fs := 4 * ncols * nrows
	card := &c04Card{data: data}
	for b := 1; b <= nblocks+1; b++ {
		end := 3 * fs * b
		if end > len(data) {
			end = len(data)
		}
		card.ends = append(card.ends, end)
		card.times = append(card.times, int64(1000000*b))
	}
	ls := c04Source(card, ncols, nrows)
	ls.mixRequests = make(chan *MixFractionObject, 10)
	ls.currentMix = make(chan []float64, 10)
	ls.nextBlock = make(chan *dataBlock)
	atomic.StoreInt32(&card.limit, 1) // nothing beyond the first read until the first mix is set
	card.ends = append([]int{0}, card.ends...)
	card.times = append([]int64{500000}, card.times...)
	ls.launchLanceroReader()
	ks := make([]int, nblocks)
	fbChans := []int{1, 3}
	var blocks []*dataBlock
	for b := 0; b < nblocks; b++ {
		ks[b] = vRange("mix"+string(rune('1'+b)), 0, len(c04MixNums)-1)
		ch := ls.getNextBlock()
		fr := float64(c04MixNums[ks[b]]) / 4
		cur, err := ls.ConfigureMixFraction(&MixFractionObject{ChannelIndices: fbChans, MixFractions: []float64{fr, fr}})
		vCheck(err == nil && len(cur) == 4, "mix request answered with the mix of every channel")
		if err == nil && len(cur) == 4 {
			vCheck(cur[1] == fr && cur[3] == fr && cur[0] == 0 && cur[2] == 0, "the reply reports the new mix of the feedback channels")
		}
		atomic.StoreInt32(&card.limit, int32(b+2)) // the card delivers the next three frames
		vAdvance(70)
		blk := <-ch
		vCheck(blk != nil && blk.err == nil, "a block follows the mix change")
		if blk == nil {
			return
		}
		blocks = append(blocks, blk)
	}
	closeIfOpen(ls.abortSelf)
	f := 0
	lastFb := make([]int, nrows)
	for b, blk := range blocks {
		num := c04MixNums[ks[b]]
		n := len(blk.segments[0].rawData)
		vCheck(n == 3, "each read of three frames yields a block of three samples")
		for j := 0; j < n && f < nframes; j, f = j+1, f+1 {
			for r := 0; r < nrows; r++ {
				e := int(int16(frames[f].err[r][0]))
				got := int(blk.segments[2*r+1].rawData[j])
				vCheck(got == c04MixWant(lastFb[r], num, e), "feedback = retarded feedback (flags cleared) + fraction x signed error, rounded, saturated at 0 and 65535")
				vCheck(blk.segments[2*r].rawData[j] == RawType(frames[f].err[r][0]), "the error stream is unchanged by the mix")
				lastFb[r] = int(frames[f].fb[r][0] &^ 3)
			}
		}
	}
	vObserve("k1", int64(ks[0]))
	vWitness("c04mix-end")
}

// verifC04MixKernel: one step of the mixer from an arbitrary state: any previous feedback
// word, any feedback and error word, any fraction from the table. Output and new state
// against the integer reference (idealised real arithmetic; exact for these dyadic fractions).
func verifC04MixKernel() {
	k := vRange("mix", 0, len(c04MixNums)-1)
	m := &Mix{errorScale: float64(c04MixNums[k]) / 4, lastFb: RawType(vSymU16("lastfb"))}
	prev := int(m.lastFb)
	fb, e := vSymU16("fb"), vSymU16("err")
	fbs, errs := []RawType{RawType(fb)}, []RawType{RawType(e)}
	m.MixRetardFb(&fbs, &errs)
	// the specification in real arithmetic: x = fb + fraction*err; out = 65535 if x >= 65535,
	// 0 if x < 0, else the integer nearest to x (ties upward)
	x := float64(int16(e))*(float64(c04MixNums[k])/4) + float64(prev)
	got := float64(fbs[0])
	if x >= 65535 {
		vCheck(got == 65535, "mixed sample saturates at 65535")
	} else if x < 0 {
		vCheck(got == 0, "mixed sample saturates at 0")
	} else {
		vCheck(got <= x+0.5 && x+0.5 < got+1, "mixed sample = previous feedback + fraction x signed error, rounded to nearest (ties up)")
	}
	if !vSymbolic() {
		vCheck(int(fbs[0]) == c04MixWant(prev, c04MixNums[k], int(int16(e))), "mixed sample agrees with the integer reference")
	}
	vCheck(m.lastFb == RawType(fb&^3), "the mixer remembers this feedback word with its flag bits cleared")
	vCheck(errs[0] == RawType(e), "the error word is untouched")
	vObserve("k", int64(k))
	vWitness("c04mixkernel-end")
}
