package dastard

// C20 — run-log side files record every event exactly once, in order.

import (
	"fmt"
	"strings"
	"time"
)

type c20Epoch struct {
	extName, dropName, stateName string
	ext                          []int64  // counts delivered while active, in order
	drops                        []string // expected lines of the data-drop file
	labels                       []string // accepted labels, START first
}

func c20Drain() {
	for {
		select {
		case <-clientMessageChan:
			continue
		default:
		}
		break
	}
}

func c20CheckEpoch(ep *c20Epoch) {
	// external-trigger file: header, then every count once, in order, little-endian int64
	b := vFsBytes(ep.extName)
	if len(ep.ext) == 0 {
		vCheck(!vFsExists(ep.extName) || len(b) == 0, "no external-trigger file content without external triggers")
	} else {
		hl := len(b) - 8*len(ep.ext)
		vCheck(hl > 0, "external-trigger file = header + 8 bytes per count")
		if hl > 0 {
			vCheck(b[0] == '#' && b[hl-1] == '\n', "external-trigger file starts with its one-line header")
			for k, want := range ep.ext {
				var got uint64
				for j := 7; j >= 0; j-- {
					got = got<<8 | uint64(b[hl+8*k+j])
				}
				vCheck(int64(got) == want, "external-trigger counts appear exactly once, in order")
			}
		}
	}
	// data-drop file
	d := string(vFsBytes(ep.dropName))
	if len(ep.drops) == 0 {
		vCheck(d == "", "no data-drop file content without data drops")
	} else {
		lines := strings.Split(strings.TrimSuffix(d, "\n"), "\n")
		vCheck(len(lines) == 1+len(ep.drops), "data-drop file = header + one line per dropping block")
		if len(lines) == 1+len(ep.drops) {
			vCheck(strings.HasPrefix(lines[0], "#"), "data-drop file starts with its header")
			for k, want := range ep.drops {
				vCheck(lines[k+1]+"\n" == want, "data-drop line holds the block's first frame and drop count")
			}
		}
	}
	// experiment-state file: header, START, labels, STOP
	s := string(vFsBytes(ep.stateName))
	lines := strings.Split(strings.TrimSuffix(s, "\n"), "\n")
	vCheck(len(lines) == 1+len(ep.labels)+1, "experiment-state file = header + START + one line per accepted label + STOP")
	if len(lines) == 1+len(ep.labels)+1 {
		vCheck(strings.HasPrefix(lines[0], "#"), "experiment-state file starts with its header")
		for k, lab := range ep.labels {
			vCheck(strings.HasSuffix(lines[1+k], ", "+lab), "state labels appear once each, in order, START first")
		}
		vCheck(strings.HasSuffix(lines[len(lines)-1], ", STOP"), "experiment-state file ends with STOP")
	}
	vCheck(vFsOpenCount() == 0, "after STOP the side files are closed")
}

// verifC20: a symbolic sequence of events; after every STOP the epoch's files equal its log.
func verifC20() {
	rig := c06Rig()
	ds := rig.ds
	ds.subframeDivisions = 64
	extTick := make(chan time.Time, 4)
	dropTick := make(chan time.Time, 4)
	ds.writingState.externalTriggerTicker = &time.Ticker{C: extTick}
	ds.writingState.dataDropTicker = &time.Ticker{C: dropTick}
	var ep *c20Epoch
	nepochs := 0
	nsteps := vParam("nsteps", 3)
	frame := 1000
	for k := 0; k <= nsteps; k++ {
		ks := fmt.Sprintf("%d", k)
		ev := 2 // the last event is always a STOP so that the last epoch is checked too
		if k < nsteps {
			ev = vRange("event"+ks, 0, 6)
		}
		active := ep != nil
		switch ev {
		case 0: // a data block: external-trigger counts and possibly dropped frames
			n := vRange("next"+ks, 0, 2)
			counts := make([]int64, n)
			for i := range counts {
				counts[i] = vSymI64("ext" + ks + string(rune('a'+i)))
			}
			dropped := vRange("drop"+ks, 0, 1) * 3
			vCheck(ds.HandleExternalTriggers(counts) == nil, "HandleExternalTriggers succeeds")
			vCheck(ds.HandleDataDrop(dropped, frame) == nil, "HandleDataDrop succeeds")
			if active {
				ep.ext = append(ep.ext, counts...)
				if dropped > 0 {
					ep.drops = append(ep.drops, fmt.Sprintf("%12d %8d\n", frame, dropped))
				}
			}
			frame += 100
		case 1:
			err := ds.WriteControl(&WriteControlConfig{Request: "START", WriteLJH22: true})
			vCheck((err == nil) == !active, "START accepted exactly when writing is not active")
			if err == nil {
				ep = &c20Epoch{extName: ds.writingState.ExternalTriggerFilename, dropName: ds.writingState.DataDropFilename,
					stateName: ds.writingState.ExperimentStateFilename, labels: []string{"START"}}
				nepochs++
				vCheck(ep.extName != "" && ep.dropName != "" && ep.stateName != "", "START names the three side files")
				vCheck(!vFsExists(ep.extName) && !vFsExists(ep.dropName), "a new epoch starts with new, empty side files")
			}
		case 2:
			vCheck(ds.WriteControl(&WriteControlConfig{Request: "STOP"}) == nil, "STOP succeeds")
			if active {
				c20CheckEpoch(ep)
				ep = nil
			}
		case 3:
			vCheck(ds.WriteControl(&WriteControlConfig{Request: "PAUSE"}) == nil, "PAUSE succeeds")
		case 4:
			lab := "u" + ks
			err := ds.WriteControl(&WriteControlConfig{Request: "UNPAUSE " + lab})
			vCheck((err == nil) == active, "UNPAUSE with a label is accepted exactly while writing is active")
			if err == nil {
				ep.labels = append(ep.labels, lab)
			}
		case 5:
			lab := "s" + ks
			err := ds.SetExperimentStateLabel(time.Unix(0, 1700000000000000000+int64(k)), lab)
			vCheck((err == nil) == active, "a state label is accepted exactly while writing is active")
			if err == nil {
				ep.labels = append(ep.labels, lab)
			}
		case 6: // the periodic flush tickers fire before the next block
			select {
			case extTick <- time.Unix(0, 0):
			default:
			}
			select {
			case dropTick <- time.Unix(0, 0):
			default:
			}
		}
		c20Drain()
	}
	vObserve("epochs", int64(nepochs))
	vWitness("c20-end")
}
