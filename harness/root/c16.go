package dastard

// C16 — status replay and configuration persistence are complete and crash-safe.

import (
	"os"
	"time"

	"github.com/spf13/viper"
)

type c16Crash struct{}

func c16Same(a, b []byte) bool {
	if len(a) != len(b) {
		return false
	}
	for i := range a {
		if a[i] != b[i] {
			return false
		}
	}
	return true
}

func c16Put(name, text string) {
	f, err := os.Create(name)
	if err != nil {
		vCheck(false, "harness can create its files")
		return
	}
	f.WriteString(text)
	f.Close()
}

// verifC16Save: the process is killed at a symbolic point of a configuration save; the
// file the next start-up reads must exist and be the complete old or complete new version.
func verifC16Save() {
	dir := os.Getenv("VERIF_WORK")
	if dir == "" {
		dir = "/cfg"
	}
	os.MkdirAll(dir, 0755)
	mainname := dir + "/config.yaml"
	tmpname := dir + "/config.tmp.yaml"
	bakname := mainname + ".bak"
	viper.SetConfigFile(mainname)
	old := "previous: configuration\n"
	c16Put(mainname, old)
	if vRange("bakexists", 0, 1) == 1 {
		c16Put(bakname, "older: backup\n")
	}
	if vRange("tmpexists", 0, 1) == 1 {
		c16Put(tmpname, "stale: temporary\n")
	}
	points := []string{"saveState:start", "saveState:tmp-written", "saveState:bak-removed", "saveState:backup-made"}
	crashAt := vRange("crashpoint", 0, len(points)) // len(points) = the save runs to completion
	var newContent []byte
	VerifHook = func(name string, args ...interface{}) {
		if name == "saveState:tmp-written" {
			newContent = vFsBytes(tmpname)
		}
		if crashAt < len(points) && name == points[crashAt] {
			panic(c16Crash{})
		}
	}
	func() {
		defer func() {
			if r := recover(); r != nil {
				if _, ok := r.(c16Crash); !ok {
					panic(r)
				}
			}
		}()
		saveState(map[string]interface{}{"STATUS": 5, "WRITING": "x"})
	}()
	VerifHook = nil
	// what the next start-up finds
	vCheck(vFsExists(mainname), "after a kill at any point of a save the configuration file exists")
	got := vFsBytes(mainname)
	isOld := c16Same(got, []byte(old))
	isNew := newContent != nil && c16Same(got, newContent)
	vCheck(isOld || isNew, "the configuration file is the complete old or the complete new version")
	if crashAt == len(points) {
		vCheck(isNew, "a completed save leaves the new version in place")
		vCheck(vFsExists(bakname), "a completed save keeps the previous version as backup")
	}
	vObserve("crashAt", int64(crashAt))
	vWitness("c16save-end")
}

type c16Msg struct {
	tag string
	msg string
}

// verifC16SendAll: the real RunClientUpdater loop; a symbolic sequence of status updates
// over several topics (repeats and unchanged values included), then SENDALL: the client
// receives, for every topic published so far (except the stateless NEWDASTARD), exactly
// that topic's most recent message, once.
func verifC16SendAll() {
	vTimersQuiet()
	var log []c16Msg
	VerifHook = func(name string, args ...interface{}) {
		if name == "publish" {
			log = append(log, c16Msg{args[0].(string), string(args[1].([]byte))})
		}
	}
	abort := make(chan struct{})
	go RunClientUpdater(5597, abort)
	vSettle(400)
	topics := []string{"STATUS", "TRIGGER", "ALIVE", "NEWDASTARD"}
	n := vParam("nupdates", 3)
	last := map[string]string{}
	for k := 0; k < n; k++ {
		ks := string(rune('0' + k))
		tag := topics[vRange("topic"+ks, 0, len(topics)-1)]
		val := vRange("value"+ks, 0, 1)
		before := len(log)
		clientMessageChan <- ClientUpdate{tag: tag, state: struct{ V int }{val}}
		vSettle(30)
		vCheck(len(log) == before+1 && log[before].tag == tag, "every status update is published once, under its topic")
		if len(log) == before+1 && tag != "NEWDASTARD" {
			last[tag] = log[before].msg
		}
	}
	before := len(log)
	clientMessageChan <- ClientUpdate{tag: "SENDALL"}
	vSettle(30)
	replay := log[before:]
	vCheck(len(replay) == len(last), "SENDALL replays one message per topic published so far")
	for tag, msg := range last {
		cnt := 0
		for _, m := range replay {
			if m.tag == tag {
				cnt++
				vCheck(m.msg == msg, "the replayed message is the topic's most recent one")
			}
		}
		vCheck(cnt == 1, "each topic is replayed exactly once")
	}
	close(abort)
	vSettle(30)
	VerifHook = nil
	vObserve("ntopics", int64(len(last)))
	vWitness("c16sendall-end")
}

// verifC16Persist: the real RunClientUpdater; a symbolic sequence of status updates over
// persistent and non-persistent topics; then the delayed save fires: the configuration
// store handed to the file writer holds, for every persistent topic, exactly its latest
// state, and nothing for topics that are not to be preserved across runs.
func verifC16Persist() {
	dir := os.Getenv("VERIF_WORK")
	if dir == "" {
		dir = "/cfg"
	}
	os.MkdirAll(dir, 0755)
	mainname := dir + "/config.yaml"
	viper.SetConfigFile(mainname)
	c16Put(mainname, "previous: configuration\n")
	abort := make(chan struct{})
	go RunClientUpdater(5596, abort)
	vSettle(400)
	topics := []string{"TRIGGER", "WRITING", "ALIVE", "TRIGGERRATE", "NEWDASTARD"}
	persistent := map[string]bool{"TRIGGER": true, "WRITING": true}
	n := vParam("nupdates", 3)
	last := map[string]int{}
	for k := 0; k < n; k++ {
		ks := string(rune('0' + k))
		tag := topics[vRange("topic"+ks, 0, len(topics)-1)]
		val := vRange("value"+ks, 0, 2)
		clientMessageChan <- ClientUpdate{tag: tag, state: struct{ V int }{val}}
		vSettle(30)
		last[tag] = val
	}
	vAdvance(2300) // the save-after-change delay (2 s) elapses, or the regular save tick comes
	close(abort)
	vSettle(30)
	npersist := 0
	for _, tag := range topics {
		v, published := last[tag]
		got := viper.Get(tag)
		if persistent[tag] && published {
			npersist++
			st, ok := got.(struct{ V int })
			vCheck(ok && st.V == v, "the saved configuration holds the latest state of every persistent topic")
		} else if !persistent[tag] {
			vCheck(got == nil, "topics without configuration to preserve are not saved")
		}
	}
	if npersist > 0 {
		vCheck(vFsExists(mainname), "the configuration file exists after the save")
		b := vFsBytes(mainname)
		vCheck(!c16Same(b, []byte("previous: configuration\n")), "the configuration file was rewritten by the save")
	}
	vObserve("npersist", int64(npersist))
	vWitness("c16persist-end")
}

// verifC16Restore: what the previous run saved under the TRIGGER topic — several channel
// groups with different, symbolic trigger settings — is what each channel starts with at the
// next start-up (PrepareRun reading the configuration store back).
func verifC16Restore() {
	nchan := 5
	ngroups := vRange("ngroups", 1, 3)
	levels := []RawType{RawType(vSymU16("level0")), RawType(vSymU16("level1")), RawType(vSymU16("level2"))}
	vAssume(levels[0] != levels[1] && levels[1] != levels[2] && levels[0] != levels[2])
	// channel -> group: a case-split assignment; channel 4 belongs to no group
	assign := make([]int, nchan)
	var saved []FullTriggerState
	for g := 0; g < ngroups; g++ {
		ts := TriggerState{LevelTrigger: true, LevelRising: g%2 == 0, LevelLevel: levels[g], AutoTrigger: g == 1, AutoDelay: time.Duration(g+1) * time.Millisecond}
		saved = append(saved, FullTriggerState{TriggerState: ts})
	}
	for c := 0; c < nchan; c++ {
		assign[c] = -1
		if c < nchan-1 {
			assign[c] = vRange("group"+string(rune('0'+c)), 0, ngroups-1)
			saved[assign[c]].ChannelIndices = append(saved[assign[c]].ChannelIndices, c)
		}
	}
	viper.Set("trigger", saved)
	ds := new(AnySource)
	ds.nchan = nchan
	ds.name = "verif"
	ds.sampleRate = 10000
	ds.PrepareChannels()
	vCheck(ds.PrepareRun(3, 4) == nil, "PrepareRun succeeds")
	for c := 0; c < nchan; c++ {
		got := ds.processors[c].TriggerState
		if g := assign[c]; g >= 0 {
			want := saved[g].TriggerState
			vCheck(got.LevelTrigger == want.LevelTrigger && got.LevelRising == want.LevelRising && got.LevelLevel == want.LevelLevel &&
				got.AutoTrigger == want.AutoTrigger && got.AutoDelay == want.AutoDelay, "each channel starts with the trigger settings saved for its group")
		} else {
			vCheck(!got.LevelTrigger && !got.EdgeTrigger, "a channel that was in no saved group gets the default settings")
		}
	}
	vObserve("ngroups", int64(ngroups))
	vWitness("c16restore-end")
}
