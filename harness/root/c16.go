package dastard

// C16 — status replay and configuration persistence are complete and crash-safe.

import (
	"os"

	"github.com/spf13/viper"
)

type c16Crash struct{}

func c16Same(a, b []byte) bool {
	if len(a) != len(b) {
		return false
	}
	for i := range a {
		if a[i] != b[i] {
			return false
		}
	}
	return true
}

func c16Put(name, text string) {
	f, err := os.Create(name)
	if err != nil {
		vCheck(false, "harness can create its files")
		return
	}
	f.WriteString(text)
	f.Close()
}

// verifC16Save: the process is killed at a symbolic point of a configuration save; the
// file the next start-up reads must exist and be the complete old or complete new version.
func verifC16Save() {
	dir := os.Getenv("VERIF_WORK")
	if dir == "" {
		dir = "/cfg"
	}
	os.MkdirAll(dir, 0755)
	mainname := dir + "/config.yaml"
	tmpname := dir + "/config.tmp.yaml"
	bakname := mainname + ".bak"
	viper.SetConfigFile(mainname)
	old := "previous: configuration\n"
	c16Put(mainname, old)
	if vRange("bakexists", 0, 1) == 1 {
		c16Put(bakname, "older: backup\n")
	}
	if vRange("tmpexists", 0, 1) == 1 {
		c16Put(tmpname, "stale: temporary\n")
	}
	points := []string{"saveState:start", "saveState:tmp-written", "saveState:bak-removed", "saveState:backup-made"}
	crashAt := vRange("crashpoint", 0, len(points)) // len(points) = the save runs to completion
	var newContent []byte
	VerifHook = func(name string, args ...interface{}) {
		if name == "saveState:tmp-written" {
			newContent = vFsBytes(tmpname)
		}
		if crashAt < len(points) && name == points[crashAt] {
			panic(c16Crash{})
		}
	}
	func() {
		defer func() {
			if r := recover(); r != nil {
				if _, ok := r.(c16Crash); !ok {
					panic(r)
				}
			}
		}()
		saveState(map[string]interface{}{"STATUS": 5, "WRITING": "x"})
	}()
	VerifHook = nil
	// what the next start-up finds
	vCheck(vFsExists(mainname), "after a kill at any point of a save the configuration file exists")
	got := vFsBytes(mainname)
	isOld := c16Same(got, []byte(old))
	isNew := newContent != nil && c16Same(got, newContent)
	vCheck(isOld || isNew, "the configuration file is the complete old or the complete new version")
	if crashAt == len(points) {
		vCheck(isNew, "a completed save leaves the new version in place")
		vCheck(vFsExists(bakname), "a completed save keeps the previous version as backup")
	}
	vObserve("crashAt", int64(crashAt))
	vWitness("c16save-end")
}

type c16Msg struct {
	tag string
	msg string
}

// verifC16SendAll: the real RunClientUpdater loop; a symbolic sequence of status updates
// over several topics (repeats and unchanged values included), then SENDALL: the client
// receives, for every topic published so far (except the stateless NEWDASTARD), exactly
// that topic's most recent message, once.
func verifC16SendAll() {
	vTimersQuiet()
	var log []c16Msg
	VerifHook = func(name string, args ...interface{}) {
		if name == "publish" {
			log = append(log, c16Msg{args[0].(string), string(args[1].([]byte))})
		}
	}
	abort := make(chan struct{})
	go RunClientUpdater(5597, abort)
	vSettle(400)
	topics := []string{"STATUS", "TRIGGER", "ALIVE", "NEWDASTARD"}
	n := vParam("nupdates", 3)
	last := map[string]string{}
	for k := 0; k < n; k++ {
		ks := string(rune('0' + k))
		tag := topics[vRange("topic"+ks, 0, len(topics)-1)]
		val := vRange("value"+ks, 0, 1)
		before := len(log)
		clientMessageChan <- ClientUpdate{tag: tag, state: struct{ V int }{val}}
		vSettle(30)
		vCheck(len(log) == before+1 && log[before].tag == tag, "every status update is published once, under its topic")
		if len(log) == before+1 && tag != "NEWDASTARD" {
			last[tag] = log[before].msg
		}
	}
	before := len(log)
	clientMessageChan <- ClientUpdate{tag: "SENDALL"}
	vSettle(30)
	replay := log[before:]
	vCheck(len(replay) == len(last), "SENDALL replays one message per topic published so far")
	for tag, msg := range last {
		cnt := 0
		for _, m := range replay {
			if m.tag == tag {
				cnt++
				vCheck(m.msg == msg, "the replayed message is the topic's most recent one")
			}
		}
		vCheck(cnt == 1, "each topic is replayed exactly once")
	}
	close(abort)
	vSettle(30)
	VerifHook = nil
	vObserve("ntopics", int64(len(last)))
	vWitness("c16sendall-end")
}
