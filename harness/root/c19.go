package dastard

// C19 — channel identity is unique and consistent everywhere it is reported.

import (
	"fmt"
	"sort"

	"github.com/usnistgov/dastard/packets"
)

func c19Lancero(ndev int, sym bool) (*LanceroSource, []int) {
	ls := new(LanceroSource)
	ls.name = "Lancero"
	ls.devices = make(map[int]*LanceroDevice)
	var devnums []int
	nchan := 0
	maxg := vParam("maxgeom", 2)
	for d := 0; d < ndev; d++ {
		dev := &LanceroDevice{}
		if d == 0 {
			dev.devnum = vRange("devnum0", 0, 2)
		} else {
			dev.devnum = devnums[d-1] + vRange("devgap", 1, 2)
		}
		dev.ncols = vRange("ncols"+string(rune('0'+d)), 1, maxg)
		dev.nrows = vRange("nrows"+string(rune('0'+d)), 1, maxg)
		devnums = append(devnums, dev.devnum)
		ls.devices[dev.devnum] = dev
		ls.active = append(ls.active, dev)
		nchan += 2 * dev.ncols * dev.nrows
	}
	ls.nchan = nchan
	if sym {
		ls.firstRowChanNum = vSymInt("firstRow")
		ls.chanSepColumns = vSymInt("sepColumns")
		ls.chanSepCards = vSymInt("sepCards")
		// magnitudes far from int64 overflow (stated assumption)
		vAssume(ls.firstRowChanNum > -(1<<40) && ls.firstRowChanNum < 1<<40)
		vAssume(ls.chanSepColumns > -(1<<40) && ls.chanSepColumns < 1<<40)
		vAssume(ls.chanSepCards > -(1<<40) && ls.chanSepCards < 1<<40)
	}
	return ls, devnums
}

// verifC19Lancero: symbolic first-row number and separations, all small geometries.
func verifC19Lancero() {
	ndev := vRange("ndev", 1, vParam("maxdev", 2))
	ls, _ := c19Lancero(ndev, true)
	err := ls.PrepareChannels()
	if err != nil {
		vWitness("c19lancero-rejected")
		return
	}
	n := ls.nchan
	vCheck(len(ls.chanNumbers) == n && len(ls.chanNames) == n && len(ls.rowColCodes) == n, "tables have one entry per stream")
	// walk the streams in the order the card delivers geometry: device, column, row, (err, fb)
	idx := 0
	for _, dev := range ls.active {
		for col := 0; col < dev.ncols; col++ {
			for row := 0; row < dev.nrows; row++ {
				vCheck(ls.chanNumbers[idx] == ls.chanNumbers[idx+1], "error/feedback partners share one channel number")
				for k := 0; k < 2; k++ {
					rc := ls.rowColCodes[idx+k]
					vCheck(rc.row() == row && rc.col() == col && rc.rows() == dev.nrows && rc.cols() == dev.ncols, "row/column code decodes to the true geometry")
				}
				vCheck(ls.subframeOffsets[idx] == row, "sub-frame offset of the error stream is its row")
				idx += 2
			}
		}
	}
	// numbers of different (card, column, row) never collide
	for i := 0; i < n; i += 2 {
		for j := i + 2; j < n; j += 2 {
			vCheck(ls.chanNumbers[i] != ls.chanNumbers[j], "channel numbers of different (card, column, row) differ")
		}
	}
	// reported groups cover exactly the numbers in use
	covered := 0
	for _, g := range ls.groupKeysSorted {
		covered += g.Nchan
	}
	vCheck(2*covered == n, "channel groups cover as many numbers as are in use")
	for i := 0; i < n; i += 2 {
		in := false
		for _, g := range ls.groupKeysSorted {
			if ls.chanNumbers[i] >= g.Firstchan && ls.chanNumbers[i] < g.Firstchan+g.Nchan {
				in = true
			}
		}
		vCheck(in, "every channel number in use lies in a reported group")
	}
	for a := 0; a < len(ls.groupKeysSorted); a++ {
		for b := a + 1; b < len(ls.groupKeysSorted); b++ {
			ga, gb := ls.groupKeysSorted[a], ls.groupKeysSorted[b]
			vCheck(ga.Firstchan+ga.Nchan <= gb.Firstchan || gb.Firstchan+gb.Nchan <= ga.Firstchan, "reported channel groups do not overlap")
		}
	}
	// readout-order table: a permutation consistent with column-major numbering
	ls.updateChanOrderMap()
	seen := make([]bool, n)
	for c := 0; c < n; c++ {
		ro := ls.chan2readoutOrder[c]
		vCheck(ro >= 0 && ro < n && !seen[ro], "channel to read-out table is a permutation")
		if ro >= 0 && ro < n {
			seen[ro] = true
		}
	}
	base := 0
	for _, dev := range ls.active {
		for col := 0; col < dev.ncols; col++ {
			for row := 0; row < dev.nrows; row++ {
				for k := 0; k < 2; k++ {
					ch := base + 2*(col*dev.nrows+row) + k
					vCheck(ls.chan2readoutOrder[ch] == base+2*(row*dev.ncols+col)+k, "channel (col,row,err/fb) reads out at row-major position")
				}
			}
		}
		base += 2 * dev.ncols * dev.nrows
	}
	vObserve("n", int64(n))
	vWitness("c19lancero-accepted")
}

// verifC19LanceroNames: concrete separations (case-split around the validity thresholds):
// names, file names and headers' identity.
func verifC19LanceroNames() {
	ndev := vRange("ndev", 1, vParam("maxdev", 2))
	ls, _ := c19Lancero(ndev, false)
	maxrows, need := 0, 0
	for _, dev := range ls.active {
		if dev.nrows > maxrows {
			maxrows = dev.nrows
		}
	}
	ls.firstRowChanNum = []int{1, 0, -3, 100}[vRange("firstRow", 0, 3)]
	ls.chanSepColumns = []int{0, maxrows - 1, maxrows, maxrows + 3, -1}[vRange("sepColumns", 0, 4)]
	for _, dev := range ls.active {
		cs := dev.nrows
		if ls.chanSepColumns > 0 {
			cs = ls.chanSepColumns
		}
		if cs*dev.ncols > need {
			need = cs * dev.ncols
		}
	}
	ls.chanSepCards = []int{0, need - 1, need, need + 7, -1}[vRange("sepCards", 0, 4)]
	if err := ls.PrepareChannels(); err != nil {
		vWitness("c19names-rejected")
		return
	}
	n := ls.nchan
	for i := 0; i < n; i++ {
		pre := "err"
		if i%2 == 1 {
			pre = "chan"
		}
		vCheck(ls.chanNames[i] == fmt.Sprintf("%s%d", pre, ls.chanNumbers[i]), "stream name is prefix + channel number")
		for j := i + 1; j < n; j++ {
			vCheck(ls.chanNames[i] != ls.chanNames[j], "stream names are pairwise distinct")
			fi := fmt.Sprintf("/d/run0000_%s.%s", ls.chanNames[i], "ljh")
			fj := fmt.Sprintf("/d/run0000_%s.%s", ls.chanNames[j], "ljh")
			vCheck(fi != fj, "no two streams share an output file name")
		}
	}
	vObserve("n", int64(n))
	vWitness("c19names-accepted")
}

// verifC19Abaco: channel-group layouts (symbolic first channels and sizes), accepted only
// when no two groups overlap (the rule AbacoSource.Sample enforces); then PrepareChannels.
func verifC19Abaco() {
	ng := vRange("ngroups", 1, vParam("maxgroups", 3))
	as := new(AbacoSource)
	as.groups = make(map[GroupIndex]*AbacoGroup)
	var keys []GroupIndex
	for g := 0; g < ng; g++ {
		first := int(vSymU16("first" + string(rune('0'+g))))
		nch := vRange("nchan"+string(rune('0'+g)), 1, vParam("maxnchan", 3))
		gi := GroupIndex{Firstchan: first, Nchan: nch}
		for _, k := range keys {
			vAssume(k.Firstchan+k.Nchan <= gi.Firstchan || gi.Firstchan+gi.Nchan <= k.Firstchan)
		}
		keys = append(keys, gi)
		as.groups[gi] = nil
		as.nchan += nch
	}
	sort.Sort(ByGroup(keys))
	as.groupKeysSorted = keys
	for a := 0; a+1 < len(keys); a++ {
		vCheck(keys[a].Firstchan < keys[a+1].Firstchan, "groups are reported in increasing channel order")
	}
	err := as.PrepareChannels()
	vCheck(err == nil, "PrepareChannels accepts a non-overlapping layout")
	n := as.nchan
	vCheck(len(as.chanNumbers) == n && len(as.chanNames) == n && len(as.rowColCodes) == n, "tables have one entry per stream")
	idx := 0
	for col, g := range keys {
		for row := 0; row < g.Nchan; row++ {
			vCheck(as.chanNumbers[idx] == g.Firstchan+row, "channel number = group's first channel + position")
			rc := as.rowColCodes[idx]
			vCheck(rc.row() == row && rc.col() == col && rc.rows() == g.Nchan && rc.cols() == len(keys), "row/column code decodes to (position, group, group size, groups)")
			idx++
		}
	}
	for i := 0; i < n; i++ {
		for j := i + 1; j < n; j++ {
			vCheck(as.chanNumbers[i] != as.chanNumbers[j], "channel numbers are pairwise distinct")
		}
	}
	vObserve("n", int64(n))
	vWitness("c19abaco-end")
}

// verifC19Default: AnySource / Roach default numbering and the rcCode round trip.
func verifC19Default() {
	n := vRange("nchan", 1, vParam("maxchan", 4))
	ds := new(AnySource)
	ds.nchan = n
	vCheck(ds.PrepareChannels() == nil, "AnySource.PrepareChannels succeeds")
	rs := new(RoachSource)
	rs.nchan = n
	vCheck(rs.PrepareChannels() == nil, "RoachSource.PrepareChannels succeeds")
	for i := 0; i < n; i++ {
		vCheck(ds.chanNumbers[i] == i && ds.chanNames[i] == fmt.Sprintf("chan%d", i), "AnySource: stream i is chan<i>")
		vCheck(rs.chanNumbers[i] == i && rs.chanNames[i] == fmt.Sprintf("chan%d", i), "Roach: stream i is chan<i>")
		rc := rs.rowColCodes[i]
		vCheck(rc.row() == i && rc.col() == 0 && rc.rows() == n && rc.cols() == 1, "Roach: row/column code decodes to the geometry")
	}
	vCheck(len(ds.groupKeysSorted) == 1 && ds.groupKeysSorted[0].Firstchan == 0 && ds.groupKeysSorted[0].Nchan == n, "AnySource: one group covering all channels")
	vCheck(len(rs.groupKeysSorted) == 1 && rs.groupKeysSorted[0].Firstchan == 0 && rs.groupKeysSorted[0].Nchan == n, "Roach: one group covering all channels")
	// rcCode round trip for all 16-bit fields
	r, c, nr, nc := int(vSymU16("row")), int(vSymU16("col")), int(vSymU16("rows")), int(vSymU16("cols"))
	code := rcCode(r, c, nr, nc)
	vCheck(code.row() == r && code.col() == c && code.rows() == nr && code.cols() == nc, "rcCode round trip (16-bit fields)")
	vObserve("n", int64(n))
	vWitness("c19default-end")
}

// c19Packets: three time-stamped packets of one channel group (first channel, nchan).
func c19Packets(first, nchan int) []*packets.Packet {
	var out []*packets.Packet
	for i := 0; i < 3; i++ {
		p := packets.NewPacket(10, 20, uint32(100+i), first)
		p.SetTimestamp(packets.MakeTimestamp(0, uint32(1000+1000*i), 1e8))
		d := make([]int16, 2*nchan)
		p.NewData(d, []int16{int16(nchan)})
		out = append(out, p)
	}
	return out
}

// verifC19AbacoSample: the real AbacoSource.Sample + PrepareChannels with stub packet
// producers delivering two channel groups of case-split layout: overlapping layouts are
// rejected; accepted ones give distinct channel numbers and names and covering groups.
func verifC19AbacoSample() {
	vClockConcrete()
	vTimersQuiet()
	n0 := vRange("nchan0", 1, vParam("maxnchan", 3))
	first1 := vRange("first1", 0, vParam("maxfirst", 4))
	n1 := vRange("nchan1", 1, 2)
	swap := vRange("order", 0, 1) == 1 // which group's packets arrive first
	as := new(AbacoSource)
	as.name = "Abaco"
	as.groups = make(map[GroupIndex]*AbacoGroup)
	as.channelsPerPixel = 1
	pk := append(c19Packets(0, n0), c19Packets(first1, n1)...)
	if swap {
		pk = append(c19Packets(first1, n1), c19Packets(0, n0)...)
	}
	pp := &c10Producer{sample: [][]*packets.Packet{pk}}
	as.producers = []PacketProducer{pp}
	err := as.Sample()
	same := first1 == 0 && n1 == n0 // the very same group seen twice is one group
	overlap := first1 < n0 && !same
	if overlap {
		vCheck(err != nil, "an Abaco layout in which a channel number belongs to two groups is rejected")
		vWitness("c19sample-rejected")
		return
	}
	vCheck(err == nil, "a non-overlapping Abaco layout is accepted")
	if err != nil {
		return
	}
	vCheck(as.PrepareChannels() == nil, "PrepareChannels succeeds")
	n := as.nchan
	vCheck(len(as.chanNumbers) == n && len(as.chanNames) == n, "tables have one entry per stream")
	for i := 0; i < n; i++ {
		for j := i + 1; j < n; j++ {
			vCheck(as.chanNumbers[i] != as.chanNumbers[j], "channel numbers are pairwise distinct")
			vCheck(as.chanNames[i] != as.chanNames[j], "stream names are pairwise distinct")
		}
	}
	covered := 0
	for _, g := range as.groupKeysSorted {
		covered += g.Nchan
	}
	vCheck(covered == n, "reported groups cover exactly the channel numbers in use")
	vObserve("n", int64(n))
	vWitness("c19sample-accepted")
}
