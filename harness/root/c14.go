package dastard

// C14 — published record and summary messages follow doc/BINARY_FORMATS.md.

import (
	"math"
	"time"
)

func c14u16(b []byte, off int) uint16 { return uint16(b[off]) | uint16(b[off+1])<<8 }
func c14u32(b []byte, off int) uint32 {
	return uint32(b[off]) | uint32(b[off+1])<<8 | uint32(b[off+2])<<16 | uint32(b[off+3])<<24
}
func c14u64(b []byte, off int) uint64 {
	return uint64(c14u32(b, off)) | uint64(c14u32(b, off+4))<<32
}

// c14Record builds a DataRecord whose every field is symbolic. Floats are arbitrary
// bit patterns (so NaN, Inf, denormals are included).
func c14Record(maxdata, maxcoef int) *DataRecord {
	rec := new(DataRecord)
	rec.channelIndex = int(vSymU16("chan"))
	rec.presamples = int(vSymU32("presamples"))
	rec.signed = vSymBool("signed")
	rec.trigFrame = FrameIndex(vSymI64("frame"))
	rec.trigTime = time.Unix(0, vSymI64("nanos"))
	rec.sampPeriod = math.Float32frombits(vSymU32("sampPeriod"))
	rec.voltsPerArb = math.Float32frombits(vSymU32("voltsPerArb"))
	rec.pretrigMean = math.Float64frombits(vSymU64("pretrigMean"))
	rec.pretrigDelta = math.Float64frombits(vSymU64("pretrigDelta"))
	rec.pulseAverage = math.Float64frombits(vSymU64("pulseAverage"))
	rec.pulseRMS = math.Float64frombits(vSymU64("pulseRMS"))
	rec.peakValue = math.Float64frombits(vSymU64("peakValue"))
	rec.residualStdDev = math.Float64frombits(vSymU64("residualStdDev"))
	n := vRange("ndata", 0, maxdata)
	rec.data = make([]RawType, n)
	for i := range rec.data {
		rec.data[i] = RawType(vSymU16("d" + string(rune('a'+i))))
	}
	nc := vRange("ncoef", 0, maxcoef)
	rec.modelCoefs = make([]float64, nc)
	for i := range rec.modelCoefs {
		rec.modelCoefs[i] = math.Float64frombits(vSymU64("coef" + string(rune('a'+i))))
	}
	return rec
}

// verifC14Records: decode(messageRecords(rec)) = rec, field by field, at the documented offsets.
func verifC14Records() {
	rec := c14Record(vParam("maxdata", 4), 0)
	msg := messageRecords(rec)
	vCheck(len(msg) == 2, "record message has two frames")
	h, body := msg[0], msg[1]
	vCheck(len(h) == 36, "record header is 36 bytes")
	if len(h) != 36 {
		return
	}
	vCheck(c14u16(h, 0) == uint16(rec.channelIndex), "bytes 0-1: channel number (little endian)")
	vCheck(h[2] == 0, "byte 2: header version 0")
	want := byte(3)
	if rec.signed {
		want = 2
	}
	vCheck(h[3] == want, "byte 3: data type code 2=int16 / 3=uint16")
	vCheck(c14u32(h, 4) == uint32(rec.presamples), "bytes 4-7: samples before trigger")
	vCheck(c14u32(h, 8) == uint32(len(rec.data)), "bytes 8-11: samples in record")
	vCheck(c14u32(h, 12) == math.Float32bits(rec.sampPeriod), "bytes 12-15: sample period (float32)")
	vCheck(c14u32(h, 16) == math.Float32bits(rec.voltsPerArb), "bytes 16-19: volts per arb (float32)")
	vCheck(c14u64(h, 20) == uint64(rec.trigTime.UnixNano()), "bytes 20-27: trigger time in ns")
	vCheck(c14u64(h, 28) == uint64(rec.trigFrame), "bytes 28-35: trigger frame index")
	vCheck(len(body) == 2*len(rec.data), "second frame is 2 bytes per sample")
	for i := 0; i < len(rec.data) && 2*i+1 < len(body); i++ {
		vCheck(c14u16(body, 2*i) == uint16(rec.data[i]), "second frame holds exactly the record's samples")
	}
	vObserve("hlen", int64(len(h)))
	vObserve("blen", int64(len(body)))
	vObserve("h3", int64(h[3]))
	vWitness("c14records-end")
}

// verifC14Summaries: decode(messageSummaries(rec)) = rec per the 48-byte table.
func verifC14Summaries() {
	rec := c14Record(vParam("maxdata", 2), vParam("maxcoef", 3))
	msg := messageSummaries(rec)
	vCheck(len(msg) == 2, "summary message has two frames")
	h, body := msg[0], msg[1]
	vCheck(len(h) == 48, "summary header is 48 bytes")
	if len(h) != 48 {
		return
	}
	vCheck(c14u16(h, 0) == uint16(rec.channelIndex), "bytes 0-1: channel number (little endian)")
	vCheck(c14u16(h, 2) == 0, "bytes 2-3: header version 0")
	vCheck(c14u32(h, 4) == uint32(rec.presamples), "bytes 4-7: samples before trigger")
	vCheck(c14u32(h, 8) == uint32(len(rec.data)), "bytes 8-11: samples in record")
	vCheck(c14u32(h, 12) == math.Float32bits(float32(rec.pretrigMean)), "bytes 12-15: pretrigger mean (float32)")
	vCheck(c14u32(h, 16) == math.Float32bits(float32(rec.peakValue)), "bytes 16-19: peak value (float32)")
	vCheck(c14u32(h, 20) == math.Float32bits(float32(rec.pulseRMS)), "bytes 20-23: pulse RMS (float32)")
	vCheck(c14u32(h, 24) == math.Float32bits(float32(rec.pulseAverage)), "bytes 24-27: pulse average (float32)")
	vCheck(c14u32(h, 28) == math.Float32bits(float32(rec.residualStdDev)), "bytes 28-31: residual std dev (float32)")
	vCheck(c14u64(h, 32) == uint64(rec.trigTime.UnixNano()), "bytes 32-39: trigger time in ns")
	vCheck(c14u64(h, 40) == uint64(rec.trigFrame), "bytes 40-47: trigger frame index")
	vCheck(len(body) == 8*len(rec.modelCoefs), "second frame is 8 bytes per coefficient")
	for i := 0; i < len(rec.modelCoefs) && 8*i+7 < len(body); i++ {
		vCheck(c14u64(body, 8*i) == math.Float64bits(rec.modelCoefs[i]), "second frame holds the coefficients as float64")
	}
	vObserve("hlen", int64(len(h)))
	vObserve("blen", int64(len(body)))
	vWitness("c14summaries-end")
}

// verifC14Held: messages stay valid while held. A record is converted to both message kinds, then a
// second, different record is converted (as the publishing goroutines do for the next record while
// the first message waits to be sent); the first messages must still decode to the first record.
func verifC14Held() {
	rec := c14Record(vParam("maxdata", 2), vParam("maxcoef", 1))
	m1 := messageRecords(rec)
	s1 := messageSummaries(rec)
	rec2 := *rec
	rec2.channelIndex = rec.channelIndex ^ 1
	rec2.trigFrame = rec.trigFrame + 1
	rec2.presamples = rec.presamples + 1
	m2 := messageRecords(&rec2)
	s2 := messageSummaries(&rec2)
	if len(m1) != 2 || len(s1) != 2 || len(m2) != 2 || len(s2) != 2 || len(m1[0]) != 36 || len(s1[0]) != 48 || len(m2[0]) != 36 || len(s2[0]) != 48 {
		vCheck(false, "messages have two frames and documented header sizes")
		return
	}
	vCheck(c14u16(m1[0], 0) == uint16(rec.channelIndex) && c14u32(m1[0], 4) == uint32(rec.presamples) && c14u64(m1[0], 28) == uint64(rec.trigFrame), "a held record message still carries its own record after a later conversion")
	vCheck(c14u16(s1[0], 0) == uint16(rec.channelIndex) && c14u32(s1[0], 4) == uint32(rec.presamples), "a held summary message still carries its own record after a later conversion")
	vCheck(c14u16(m2[0], 0) == uint16(rec2.channelIndex) && c14u64(m2[0], 28) == uint64(rec2.trigFrame), "the later record message carries the later record")
	vCheck(c14u16(s2[0], 0) == uint16(rec2.channelIndex), "the later summary message carries the later record")
	vWitness("c14held-end")
}
