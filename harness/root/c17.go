package dastard

// C17 — data-race freedom, decided for the fork/join and hand-off kernels the property's
// anchors name, by a happens-before (vector clock) monitor over every heap access of the
// real code as the engine executes it. NOT the whole running program (see DESIGN.md §6).

import (
	"bytes"
	"os"
	"time"

	"github.com/usnistgov/dastard/packets"
)

// verifC17Process: ProcessSegments' fan-out / fan-in (per-channel goroutines, broker,
// secondaries, trimming) with triggers firing on every channel and group connections,
// while a publisher goroutine reads every field of the records it receives and a status
// goroutine reads the status payloads.
func verifC17Process() {
	nchan := vParam("nchan", 3)
	npre, nsamp := 3, 4
	n1, n2 := vParam("block1", 6), vParam("block2", 4)
	rates := vParam("rates", 0) == 1
	tRigCountTriggers = rates
	rig := newTRig(nchan, npre, nsamp, n1+n2, nil, false)
	if rates {
		// a 2 Hz stream: every block spans several one-second trigger-rate periods, so one
		// call of the broker emits several TRIGGERRATE messages
		rig.ds.sampleRate = 2
		rig.period = 500000000
		for _, dsp := range rig.ds.processors {
			dsp.SampleRate = 2
		}
	}
	if vParam("symbolicdata", 0) == 0 {
		// which accesses happen does not depend on the sample values beyond where triggers
		// fall: a fixed zig-zag per channel with a symbolic threshold explores those
		for c := 0; c < nchan; c++ {
			for k := range rig.truth[c] {
				rig.truth[c][k] = RawType(100 + 40*((k+c)%3))
			}
		}
	}
	ts := TriggerState{LevelTrigger: true, LevelRising: true, LevelLevel: RawType(vSymU16("level")), AutoDelay: 250 * time.Millisecond}
	chans := make([]int, nchan)
	conns := map[int][]int{}
	for c := range chans {
		chans[c] = c
		conns[c] = []int{(c + 1) % nchan}
	}
	vCheck(rig.ds.ChangeTriggerState(&FullTriggerState{ChannelIndices: chans, TriggerState: ts}) == nil, "trigger settings accepted")
	rig.ds.ChangeGroupTrigger(true, &GroupTriggerState{Connections: conns})
	done := make(chan int)
	stop := make(chan struct{})
	go func() { // the publisher thread: reads all fields of every record
		total := 0
		for {
			select {
			case batch := <-rig.pub:
				for _, rec := range batch {
					total += len(rec.data) + rec.presamples + rec.channelIndex + int(rec.trigFrame)
					for _, v := range rec.data {
						total += int(v)
					}
				}
			case <-rig.sum:
			case <-stop:
				done <- total
				return
			}
		}
	}()
	statusDone := make(chan int)
	nrates := 0
	go func() { // the status thread
		n := 0
		for {
			select {
			case u := <-clientMessageChan:
				n += len(u.tag)
				if m, ok := u.state.(TriggerRateMessage); ok { // what the JSON encoder reads
					for _, c := range m.CountsSeen {
						n += c
					}
					nrates++
				}
			case <-stop:
				statusDone <- n
				return
			}
		}
	}()
	for _, n := range []int{n1, n2} {
		block := new(dataBlock)
		block.nSamp = n
		block.segments = make([]DataSegment, nchan)
		for c := 0; c < nchan; c++ {
			data := make([]RawType, n)
			copy(data, rig.truth[c][rig.fed:rig.fed+n])
			block.segments[c] = DataSegment{rawData: data, framesPerSample: 1, firstFrameIndex: rig.frame0 + FrameIndex(rig.fed),
				firstTime: time.Unix(0, rig.t0+int64(rig.fed)*rig.period), framePeriod: time.Duration(rig.period), voltsPerArb: 1}
		}
		vCheck(rig.ds.ProcessSegments(block) == nil, "ProcessSegments succeeds")
		rig.fed += n
	}
	vSettle(50)
	close(stop)
	<-done
	<-statusDone
	if rates {
		vCheck(nrates >= 3, "several trigger-rate messages were published")
	}
	vObserve("fed", int64(rig.fed))
	vWitness("c17process-end")
}

// c17ExtTrigPacket decodes (with the real decoder) a packet carrying one external-trigger
// entry (u32 value, u32 active, u64 t), as the Abaco firmware sends them.
func c17ExtTrigPacket(seq uint32, t uint64) *packets.Packet {
	b := []byte{0x10, 16 + 8 + 8 + 16, 0, 16, 0x81, 0x0b, 0x00, 0xff, 0, 0, 0, 77, 0, 0, 0, byte(seq)}
	b = append(b, 0x21, 1, '>', 'I', 'I', 'Q', 0, 0) // format
	b = append(b, 0x22, 1, 0, 1, 0, 0, 0, 0)         // shape: 1
	b = append(b, 0x29, 2)
	b = append(b, []byte("value,active,t")...)
	b = append(b, 0, 0, 0, 1, 0, 0, 0, 1)
	for j := 7; j >= 0; j-- {
		b = append(b, byte(t>>(8*uint(j))))
	}
	p, err := packets.ReadPacket(bytes.NewReader(b))
	vCheck(err == nil && p.IsExternalTrigger() && p.Frames() == 1, "the external-trigger packet decodes as one")
	return p
}

// verifC17Abaco: the Abaco reader goroutine (distributePackets reads the frame counter)
// against block assembly (getNextBlock / distributeData write it; per-channel goroutines
// fill in the block), as the core loop drives them.
func verifC17Abaco() {
	vTimersQuiet()
	vClockConcrete()
	as := new(AbacoSource)
	as.name = "Abaco"
	as.sampleRate = 100000
	as.samplePeriod = 10 * time.Microsecond
	as.readPeriod = 20 * time.Microsecond // natively: the reader runs ahead of block assembly
	as.abortSelf = make(chan struct{})
	as.nextBlock = make(chan *dataBlock)
	as.buffersChan = make(chan AbacoBuffersType, 100)
	as.groups = make(map[GroupIndex]*AbacoGroup)
	gi := GroupIndex{Firstchan: 0, Nchan: 2}
	grp := NewAbacoGroup(gi, AbacoUnwrapOptions{})
	grp.seqnumsync = 1000
	grp.lastSN = 999
	as.groups[gi] = grp
	as.groupKeysSorted = []GroupIndex{gi}
	as.nchan = 2
	prod := &c03Producer{as: as, last: true}
	for t := 0; t < vParam("ticks", 3); t++ {
		p, _ := c03PacketOff(uint32(1000+t), gi, 2, "t"+string(rune('0'+t)))
		p.SetTimestamp(packets.MakeTimestamp(0, uint32(1000+1000*t), 1e8))
		tick := []*packets.Packet{p}
		if vParam("exttrig", 1) != 0 {
			tick = append(tick, c17ExtTrigPacket(uint32(t), uint64(1000+1000*t)))
		}
		prod.script = append(prod.script, tick)
	}
	as.producers = []PacketProducer{prod}
	go as.readerMainLoop()
	nblocks := 0
	for {
		blk, ok := <-as.getNextBlock() // what CoreLoop does
		if !ok || blk == nil {
			break
		}
		nblocks += blk.nSamp
	}
	vObserve("samples", int64(nblocks))
	vWitness("c17abaco-end")
}

// verifC17Lancero: the Lancero reader goroutine (launchLanceroReader: card reads, frame
// alignment, buffer hand-off) against the consumer of its buffers (distributeData: demux,
// mix, external triggers), over a scripted card.
func verifC17Lancero() {
	ncols, nrows := 1, 2
	nframes := vParam("nframes", 9)
	slots := map[[2]int]bool{{1, 0}: true, {4, 1}: true}
	data, _ := c04Stream(nframes, ncols, nrows, slots)
	fs := 4 * ncols * nrows
	card := &c04Card{data: data}
	card.ends = []int{3 * fs, 6 * fs, len(data), len(data)}
	card.times = []int64{1000000, 2000000, 3000000, 4000000}
	ls := c04Source(card, ncols, nrows)
	ls.launchLanceroReader()
	prog := make(chan int, 16)
	go func() { // what getNextBlock does with the buffers
		for buf := range ls.buffersChan {
			blk := ls.distributeData(buf)
			prog <- len(blk.segments[0].rawData)
		}
		close(prog)
	}()
	total := 0
	for total < nframes { // until every frame of the script has been demultiplexed
		n, ok := <-prog
		if !ok {
			break
		}
		total += n
	}
	closeIfOpen(ls.abortSelf)
	vSettle(50)
	vObserve("frames", int64(total))
	vWitness("c17lancero-end")
}

// verifC17Archive: a raw-data block is requested (ArchiveDataBlock, inside the core loop as
// StoreRawDataBlock runs it), the core loop fills it block by block (ProcessSegments ->
// archiveNewDataBlock) while the writer goroutine waits for completion and then reads the
// archive to write the file; a second request follows the first. The npz encoder itself is
// summarised (its calls read the archive's slices).
func verifC17Archive() {
	vStub("github.com/sbinet/npyio/npz.NewWriter")
	vStub("(*github.com/sbinet/npyio/npz.Writer).Write")
	vStub("(*github.com/sbinet/npyio/npz.Writer).Close")
	nchan := 2
	rig := newTRig(nchan, 3, 4, 40, nil, false)
	for c := 0; c < nchan; c++ {
		for k := range rig.truth[c] {
			rig.truth[c][k] = RawType(100 + k)
		}
	}
	dir := os.Getenv("VERIF_WORK")
	if dir == "" {
		dir = "/data"
	}
	os.MkdirAll(dir, 0755)
	nreq := vParam("requests", 2)
	for q := 0; q < nreq; q++ {
		f, err := os.Create(dir + "/raw" + string(rune('0'+q)) + ".npz.tmp")
		vCheck(err == nil, "harness can create the archive file")
		vCheck(rig.ds.ArchiveDataBlock(6, f, dir+"/raw"+string(rune('0'+q))+".npz") == nil, "archive request accepted")
		for b := 0; b < 3; b++ { // 3 blocks of 4 samples: the request fills during the second
			n := 4
			block := new(dataBlock)
			block.nSamp = n
			block.segments = make([]DataSegment, nchan)
			for c := 0; c < nchan; c++ {
				data := make([]RawType, n)
				copy(data, rig.truth[c][rig.fed:rig.fed+n])
				block.segments[c] = DataSegment{rawData: data, framesPerSample: 1, firstFrameIndex: rig.frame0 + FrameIndex(rig.fed),
					firstTime: time.Now().Add(time.Hour), framePeriod: time.Duration(rig.period), voltsPerArb: 1}
			}
			vCheck(rig.ds.ProcessSegments(block) == nil, "ProcessSegments succeeds")
			rig.fed += n
		}
	}
	vSettle(50)
	vObserve("fed", int64(rig.fed))
	vWitness("c17archive-end")
}

// verifC17Requests: a running Triangle source (real CoreLoop, real ProcessSegments with
// triggers firing and LJH files being written) while one client issues control requests
// through the real SourceControl methods; publisher and status consumers read what they
// receive. Ticker firings (data blocks) interleave with the requests in every order.
func verifC17Requests() {
	vWatchdog(30)
	c11RealProcessing = true
	c11TriangleMax = 106 // 12-sample blocks: several 4-sample records per block
	sc := c11Start(0)
	stop := make(chan struct{})
	done := make(chan int)
	got := make(chan int, 64)
	go func() { // the publisher thread
		total := 0
		for {
			select {
			case batch := <-PubRecordsChan:
				for _, rec := range batch {
					total += len(rec.data) + rec.presamples + rec.channelIndex + int(rec.trigFrame)
					for _, v := range rec.data {
						total += int(v)
					}
				}
				select {
				case got <- len(batch):
				default:
				}
			case <-PubSummariesChan:
			case <-stop:
				done <- total
				return
			}
		}
	}()
	var reply bool
	st := &FullTriggerState{ChannelIndices: []int{0}}
	st.AutoTrigger, st.AutoDelay = true, 0
	vCheck(sc.ConfigureTriggers(st, &reply) == nil, "trigger request answered")
	// channel 1: auto triggers, or the edge-multi trigger armed (its bookkeeping is updated by
	// the channel's processing goroutine on every block)
	st1 := &FullTriggerState{ChannelIndices: []int{1}}
	if vRange("chan1trigger", 0, 1) == 0 {
		st1.AutoTrigger, st1.AutoDelay = true, 0
	} else {
		st1.EdgeMulti, st1.EdgeMultiLevel, st1.EdgeMultiVerifyNMonotone, st1.EdgeMultiDisableZeroThreshold = true, 1, 1, true
	}
	vCheck(sc.ConfigureTriggers(st1, &reply) == nil, "second trigger request answered")
	vCheck(sc.WriteControl(&WriteControlConfig{Request: "START", WriteLJH22: true}, &reply) == nil, "START answered")
	<-got // records are being triggered, written and published
	which := vRange("request", 0, 4)
	switch which {
	case 4:
		st.AutoDelay = time.Millisecond
		vCheck(sc.ConfigureTriggers(st, &reply) == nil, "trigger change answered")
	case 0:
		vCheck(sc.ConfigurePulseLengths(SizeObject{Nsamp: 6, Npre: 3}, &reply) != nil || true, "pulse-length request answered")
	case 1:
		gts := GroupTriggerState{Connections: map[int][]int{0: {1}}}
		vCheck(sc.AddGroupTriggerCoupling(gts, &reply) == nil, "coupling request answered")
	case 2:
		c := "a comment"
		vCheck(sc.WriteComment(&c, &reply) == nil, "comment request answered")
	case 3:
		vCheck(sc.SetExperimentStateLabel(&StateLabelConfig{Label: "calib", WaitForError: true}, &reply) == nil, "state label answered")
	}
	<-got // ... and still are after the request
	vCheck(sc.WriteControl(&WriteControlConfig{Request: "STOP"}, &reply) == nil, "STOP answered")
	var dummy string
	vCheck(sc.Stop(&dummy, &reply) == nil, "Stop is answered")
	close(stop)
	<-done
	vObserve("request", int64(which))
	vWitness("c17requests-end")
}
