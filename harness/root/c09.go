package dastard

// C09 — group triggers deliver exactly the connected secondaries; edits act as a set.

// c09Edits applies a case-split sequence of connection edits through the entry points the
// RPC layer uses and maintains the set-theoretic result in ghost (ghost[s*n+r] = s->r).
func c09Edits(ds *AnySource, ls *LanceroSource, n int, nedits int) []bool {
	ghost := make([]bool, n*n)
	nops := 3
	if ls != nil {
		nops = 6
	}
	for e := 0; e < nedits; e++ {
		es := string(rune('0' + e))
		op := vRange("op"+es, 0, nops-1)
		switch op {
		case 0, 1: // add / delete through ChangeGroupTrigger
			s := vRange("src"+es, -1, n)
			r := vRange("rcv"+es, -1, n)
			gts := &GroupTriggerState{Connections: map[int][]int{s: {r}}}
			ds.ChangeGroupTrigger(op == 0, gts) // whether invalid indices are reported as errors is C11's business
			if s >= 0 && s < n && r >= 0 && r < n && s != r {
				ghost[s*n+r] = op == 0
			}
		case 2:
			vCheck(ds.StopTriggerCoupling() == nil, "StopTriggerCoupling succeeds")
			for i := range ghost {
				ghost[i] = false
			}
		default: // TDM error<->feedback coupling (Lancero)
			st := []CouplingStatus{NoCoupling, FBToErr, ErrToFB}[op-3]
			vCheck(ls.SetCoupling(st) == nil, "SetCoupling succeeds")
			for i := 0; i+1 < n; i += 2 {
				ghost[i*n+i+1] = st == ErrToFB
				ghost[(i+1)*n+i] = st == FBToErr
			}
		}
	}
	return ghost
}

func c09CheckTable(broker *TriggerBroker, ghost []bool, n int) {
	count := 0
	for s := 0; s < n; s++ {
		for r := 0; r < n; r++ {
			vCheck(broker.isConnected(s, r) == ghost[s*n+r], "connection table equals the set-theoretic result")
			if ghost[s*n+r] {
				count++
			}
		}
	}
	vCheck(broker.nconnections == count, "connection counter equals the number of connections")
	// nothing outside the channel range is stored
	total := 0
	for r := 0; r < n; r++ {
		total += len(broker.sources[r])
	}
	vCheck(total == count, "no out-of-range or self connection is stored")
	// the state reported to clients is the set actually used
	gts := broker.computeGroupTriggerState()
	reported := 0
	for s, rxs := range gts.Connections {
		for _, r := range rxs {
			reported++
			vCheck(s >= 0 && s < n && r >= 0 && r < n && ghost[s*n+r], "every reported connection is in the set")
		}
	}
	vCheck(reported == count, "reported connection state has exactly the set's connections")
}

// c09Distribute runs one Distribute with symbolic primaries and compares the secondaries
// of every receiver with the sorted multiset union over its connected sources.
func c09Distribute(broker *TriggerBroker, ghost []bool, n int, maxprim int, cycle string) {
	primaries := make(map[int]triggerList)
	lists := make([][]FrameIndex, n)
	for c := 0; c < n; c++ {
		// as in ProcessSegments, every channel reports its trigger list each cycle (possibly empty)
		cs := cycle + string(rune('0'+c))
		k := vRange("nprim"+cs, 0, maxprim)
		fr := make([]FrameIndex, k)
		for i := range fr {
			fr[i] = FrameIndex(vSymI64("f" + cs + string(rune('a'+i))))
			if i > 0 {
				vAssume(fr[i-1] < fr[i])
			}
		}
		lists[c] = fr
		primaries[c] = triggerList{channelIndex: c, frames: fr}
	}
	sec, err := broker.Distribute(primaries)
	vCheck(err == nil, "Distribute returns no error")
	for r := 0; r < n; r++ {
		var want []FrameIndex
		for s := 0; s < n; s++ {
			if ghost[s*n+r] {
				want = append(want, lists[s]...)
			}
		}
		got := sec[r]
		vCheck(len(got) == len(want), "receiver gets one secondary per primary of each connected source in this cycle (none if unconnected)")
		for i := 0; i+1 < len(got); i++ {
			vCheck(got[i] <= got[i+1], "secondaries are in frame order")
		}
		// multiset equality, branch-free
		for _, v := range want {
			cg, cw := 0, 0
			for _, x := range got {
				cg += vB2I(x == v)
			}
			for _, x := range want {
				cw += vB2I(x == v)
			}
			vCheck(cg == cw, "secondary frames are exactly the connected sources' primary frames of this cycle")
		}
	}
}

// verifC09Broker: edits through AnySource.ChangeGroupTrigger / StopTriggerCoupling.
func verifC09Broker() {
	n := vRange("nchan", 2, vParam("maxchan", 3))
	ds := new(AnySource)
	ds.nchan = n
	ds.broker = NewTriggerBroker(n)
	ghost := c09Edits(ds, nil, n, vParam("nedits", 2))
	c09CheckTable(ds.broker, ghost, n)
	c09Distribute(ds.broker, ghost, n, vParam("maxprim", 2), "a")
	c09Distribute(ds.broker, ghost, n, vParam("maxprim2", 1), "b") // a second processing cycle: nothing carries over
	vObserve("nconn", int64(ds.broker.nconnections))
	vWitness("c09broker-end")
}

// verifC09Coupling: the same including Lancero error/feedback coupling requests.
func verifC09Coupling() {
	n := 2 * vRange("npairs", 1, vParam("maxpairs", 2))
	ls := new(LanceroSource)
	ls.nchan = n
	ls.broker = NewTriggerBroker(n)
	ghost := c09Edits(&ls.AnySource, ls, n, vParam("nedits", 2))
	c09CheckTable(ls.broker, ghost, n)
	c09Distribute(ls.broker, ghost, n, 1, "a")
	if vParam("cycles", 1) >= 2 {
		c09Distribute(ls.broker, ghost, n, 1, "b")
	}
	vObserve("nconn", int64(ls.broker.nconnections))
	vWitness("c09coupling-end")
}
