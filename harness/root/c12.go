package dastard

// C12 — phase unwrapping keeps the signal modulo flux quanta and is block-independent.

// c12Params picks one of the (fractionBits, lowBitsToDrop) pairs used in the
// tree: Abaco rescaled (16,4), Abaco not rescaled (16,0), ROACH (14,2), tests (13,2).
func c12Params() (fb, drop uint) {
	switch vRange("paramset", 0, 3) {
	case 0:
		return 16, 4
	case 1:
		return 16, 0
	case 2:
		return 14, 2
	}
	return 13, 2
}

// c12Bias returns the bias level exactly as calcBiasLevel computes it.
func c12Bias(pulseSign int) int {
	opt := AbacoUnwrapOptions{Bias: vRange("biasOn", 0, 1) == 1, PulseSign: pulseSign}
	return opt.calcBiasLevel()
}

func c12New() (u *PhaseUnwrapper, fb, drop uint) {
	fb, drop = c12Params()
	enable := vRange("enable", 0, 1) == 1
	if drop == 0 {
		enable = false // the constructor refuses enable with no dropped bits (documented)
	}
	pulseSign := 1
	if vRange("pulseNeg", 0, 1) == 1 {
		pulseSign = -1
	}
	invert := vSymBool("invert")
	resetAfter := vRange("resetAfter", 1, 3)
	u = NewPhaseUnwrapper(fb, drop, enable, c12Bias(pulseSign), resetAfter, pulseSign, invert)
	return
}

// reference: what the dropped/inverted input is
func c12Ref(raw RawType, u *PhaseUnwrapper, fb, drop uint, invert bool) uint16 {
	x := uint16(raw)
	if invert {
		x = ^x
	}
	if fb < 16 {
		x &= uint16(1)<<fb - 1
	}
	return x >> drop
}

// verifC12Base: the constructor establishes the state invariant.
func verifC12Base() {
	u, fb, drop := c12New()
	if u.enable {
		vCheck(u.twoPi == uint16(1)<<(fb-drop), "twoPi is one quantum after the bit drop")
		vCheck(u.offset%u.twoPi == 0, "base: offset is a whole number of quanta")
		vCheck(u.offset == u.resetOffset, "base: starts at home offset")
		vCheck(u.resetCount == 0, "base: reset counter zero")
		vCheck(u.lastVal < u.twoPi, "base: lastVal below one quantum")
		vCheck(u.upperStepLim-u.lowerStepLim == int16(u.twoPi), "base: step window is exactly one quantum wide")
	}
	vWitness("c12base-end")
}

// verifC12Step: one sample from an arbitrary valid state (inductive step).
func verifC12Step() {
	u, fb, drop := c12New()
	invert := u.invertData
	if u.enable {
		// arbitrary state satisfying the representation invariant
		u.lastVal = vSymU16("lastVal")
		vAssume(u.lastVal < u.twoPi)
		k := vSymU16("offsetQuanta")
		u.offset = k * u.twoPi
		u.resetCount = vRange("resetCount", 0, u.resetAfter)
		// resetCount > 0 only happens away from home
		vAssume(u.resetCount == 0 || u.offset != u.resetOffset)
	}
	prevOffset := u.offset
	prevLast := u.lastVal
	prevCount := u.resetCount
	rawv := RawType(vSymU16("x"))
	raw := []RawType{rawv}
	u.UnwrapInPlace(&raw)
	v := c12Ref(rawv, u, fb, drop, invert)
	out := uint16(raw[0])
	vObserve("out", int64(out))
	if !u.enable {
		vCheck(out == v, "disabled: output is the dropped/inverted input")
		vWitness("c12step-disabled")
		return
	}
	vCheck((out-v)%u.twoPi == 0, "output congruent to input modulo one quantum")
	vCheck(out == v+u.offset, "output is input plus current offset")
	vCheck(u.offset%u.twoPi == 0, "step: offset stays a whole number of quanta")
	vCheck(u.resetCount >= 0 && u.resetCount <= u.resetAfter, "step: reset counter within bounds")
	vCheck(u.lastVal == v && u.lastVal < u.twoPi, "step: lastVal tracks input")
	vCheck(u.resetCount == 0 || u.offset != u.resetOffset, "step: counter nonzero only away from home")

	// reference for the short-term update: the input step is reduced modulo one
	// quantum into the window (lowerStepLim, upperStepLim)
	prevOut := prevLast + prevOffset
	inStep := int16(v - prevLast)
	outStep := int16(out - prevOut)
	exp := prevOffset
	if inStep > u.upperStepLim {
		exp -= u.twoPi
	} else if inStep < u.lowerStepLim {
		exp += u.twoPi
	}
	resetFires := exp != u.resetOffset && prevCount+1 > u.resetAfter
	if !resetFires {
		vCheck(u.offset == exp, "between resets: offset follows the short-term rule")
		d := outStep - inStep
		vCheck(d == 0 || d == int16(u.twoPi) || d == -int16(u.twoPi), "output step = input step + k quanta, |k|<=1")
		// effective bias within half a quantum: the window then contains exactly one representative
		bias := (u.upperStepLim + u.lowerStepLim) / 2
		half := int16(u.twoPi / 2)
		if bias <= half && bias >= -half {
			vCheck(outStep >= u.lowerStepLim && outStep <= u.upperStepLim, "output step within half a quantum of the bias")
		} else {
			vTag("bias-beyond-half-quantum")
			vCheck(outStep >= u.lowerStepLim && outStep <= u.upperStepLim, "output step within half a quantum of the bias (bias beyond half a quantum)")
		}
	}
	// reset rule
	if exp != u.resetOffset {
		if resetFires {
			vCheck(u.offset == u.resetOffset && u.resetCount == 0, "reset: returns home after resetAfter consecutive samples away")
		} else {
			vCheck(u.resetCount == prevCount+1, "reset: counts consecutive samples away from home")
		}
	} else {
		vCheck(u.resetCount == 0 && u.offset == u.resetOffset, "reset: counter cleared at home")
	}
	vWitness("c12step-end")
}

// verifC12Split: the result does not depend on how the sequence is split into calls.
func verifC12Split() {
	n := vRange("n", 1, vParam("nmax", 4))
	cut := vRange("cut", 0, n)
	fb, drop := c12Params()
	enable := vRange("enable", 0, 1) == 1 && drop > 0
	pulseSign := 1
	if vRange("pulseNeg", 0, 1) == 1 {
		pulseSign = -1
	}
	invert := vSymBool("invert")
	resetAfter := vRange("resetAfter", 1, 2)
	bias := c12Bias(pulseSign)
	a := NewPhaseUnwrapper(fb, drop, enable, bias, resetAfter, pulseSign, invert)
	b := NewPhaseUnwrapper(fb, drop, enable, bias, resetAfter, pulseSign, invert)
	xs := make([]RawType, n)
	for i := range xs {
		xs[i] = RawType(vSymU16("x" + string(rune('0'+i))))
	}
	one := append([]RawType(nil), xs...)
	a.UnwrapInPlace(&one)
	p1 := append([]RawType(nil), xs[:cut]...)
	p2 := append([]RawType(nil), xs[cut:]...)
	b.UnwrapInPlace(&p1)
	b.UnwrapInPlace(&p2)
	for i := 0; i < n; i++ {
		var got RawType
		if i < cut {
			got = p1[i]
		} else {
			got = p2[i-cut]
		}
		vCheck(got == one[i], "split: same output sample")
	}
	vCheck(a.offset == b.offset && a.lastVal == b.lastVal && a.resetCount == b.resetCount, "split: same final state")
	vWitness("c12split-end")
}
