package dastard

// C01 — each pulse record is an exact, correctly labelled excerpt of its channel stream.

import "time"

// c01Config installs a trigger configuration on channel 0 (and, for the "both" case, on
// channel 1) through the real ChangeTriggerState, plus a group connection 0 -> 1 so that
// channel 1 emits secondary records.
func c01Config(rig *tRig, cfg int) {
	ts := TriggerState{AutoDelay: 250 * time.Millisecond, EdgeLevel: 100, LevelLevel: 4000}
	chans := []int{0}
	switch cfg {
	case 0:
		ts.EdgeTrigger, ts.EdgeRising = true, true
		ts.EdgeLevel = int32(vSymU16("edgeLevel"))
	case 1:
		ts.EdgeTrigger, ts.EdgeFalling = true, true
		ts.EdgeLevel = int32(vSymU16("edgeLevel"))
	case 2:
		ts.LevelTrigger, ts.LevelRising = true, true
		ts.LevelLevel = RawType(vSymU16("levelLevel"))
	case 3:
		ts.LevelTrigger, ts.LevelRising = true, false
		ts.LevelLevel = RawType(vSymU16("levelLevel"))
	case 4:
		ts.AutoTrigger = true
		ts.AutoDelay = time.Duration(vRange("autoDelaySamples", 0, 2)*3) * 100 * time.Microsecond // 0, 3, 6 samples
	case 5:
		ts.EdgeTrigger, ts.EdgeRising, ts.EdgeFalling = true, true, true
		ts.EdgeLevel = int32(vSymU16("edgeLevel"))
		ts.LevelTrigger, ts.LevelRising = true, true
		ts.LevelLevel = RawType(vSymU16("levelLevel"))
		ts.AutoTrigger = true
		ts.AutoDelay = 700 * time.Microsecond
	case 6:
		ts.LevelTrigger, ts.LevelRising = true, true
		ts.LevelLevel = RawType(vSymU16("levelLevel"))
		chans = []int{0, 1}
	case 7, 8, 9: // edge-multi: variable-length, two-full-length, full-length-isolated records
		ts = c08State(cfg-7+0, false, 1)
		if cfg == 7 {
			ts = c08State(1, false, 1)
		} else if cfg == 8 {
			ts = c08State(0, false, 1)
		} else {
			ts = c08State(2, false, 1)
		}
	}
	if ts.EdgeTrigger {
		vAssume(ts.EdgeLevel >= 1)
	}
	err := rig.ds.ChangeTriggerState(&FullTriggerState{ChannelIndices: chans, TriggerState: ts})
	vCheck(err == nil, "ChangeTriggerState accepts the configuration")
	if rig.nchan > 1 {
		rig.ds.ChangeGroupTrigger(true, &GroupTriggerState{Connections: map[int][]int{0: {1}}})
	}
}

// verifC01Stream: a symbolic stream cut into symbolic-length blocks through the real
// pipeline; every published record (primary or secondary) must be an exact excerpt.
func verifC01Stream() {
	npre := vParam("npre", 3)
	nsamp := vRange("nsamp", vParam("nsampmin", 4), vParam("nsampmax", 5))
	nblocks := vRange("nblocks", 1, vParam("maxblocks", 2))
	maxblk := vParam("maxblock", 7)
	lens := make([]int, nblocks)
	total := 0
	for b := range lens {
		lens[b] = vRange("len"+string(rune('0'+b)), 1, maxblk)
		total += lens[b]
	}
	rig := newTRig(2, npre, nsamp, total, nil, true)
	rig.signed = vRange("signed", 0, 1) == 1
	cfg := vRange("cfg", vParam("mincfg", 0), vParam("maxcfg", 6))
	if cfg == 6 && total > vParam("cap6", 7) {
		vAssume(false) // both channels triggering squares the number of paths: shorter streams only
	}
	if cfg == 7 && total > vParam("cap7v", 11) {
		vAssume(false)
	}
	if cfg >= 8 && total > vParam("cap7", 8) {
		vAssume(false) // edge-multi forks at nearly every sample: short streams only here (long ones in C08)
	}
	c01Config(rig, cfg)
	nrec := 0
	for b := 0; b < nblocks; b++ {
		rig.feed(lens[b])
		for _, batch := range rig.batches {
			for _, rec := range batch {
				if cfg == 7 {
					// variable-length edge-multi records: whatever lengths they declare must be true
					vCheck(rec.presamples >= 0 && rec.presamples <= npre && len(rec.data) <= nsamp, "variable-length record within the configured lengths")
					rig.checkExcerpt(rec, rec.presamples, len(rec.data))
				} else {
					rig.checkExcerpt(rec, npre, nsamp)
				}
				nrec++
			}
		}
	}
	vObserve("nrec", int64(nrec))
	vWitness("c01stream-end")
}

// verifC01Bookkeeping: inductive step for the stream bookkeeping. From an arbitrary valid
// stream state (contents = ground truth, first frame/time consistent), append an arbitrary
// contiguous segment, cut a record at any valid index, trim to any N: labels stay exact.
func verifC01Bookkeeping() {
	L := vRange("L", 0, vParam("maxL", 6))
	n := vRange("n", 1, vParam("maxn", 4))
	fps := vRange("fps", 1, 2)
	F := FrameIndex(vSymI64("F"))
	vAssume(F >= 0 && F < 1<<40)
	T := vSymI64("T")
	vAssume(T >= 0 && T < 1<<60)
	P := int64(vSymU32("P"))
	vAssume(P >= 1)
	truth := make([]RawType, L+n)
	for i := range truth {
		truth[i] = RawType(vSymU16("x" + string(rune('a'+i))))
	}
	data := make([]RawType, L, L+2)
	copy(data, truth[:L])
	stream := NewDataStream(data, fps, F, time.Unix(0, T), time.Duration(P))
	seg := NewDataSegment(append([]RawType(nil), truth[L:]...), fps, F+FrameIndex(L*fps), time.Unix(0, T+int64(L*fps)*P), time.Duration(P))
	seg.signed = vSymBool("signed")
	stream.AppendSegment(seg)
	vCheck(len(stream.rawData) == L+n, "append: stream holds old + new samples")
	vCheck(stream.firstFrameIndex == F, "append: first frame index unchanged for a contiguous segment")
	vCheck(stream.firstTime.UnixNano() == T, "append: first time unchanged for a contiguous segment")
	vCheck(stream.signed == seg.signed && stream.framesPerSample == fps, "append: signedness and frames per sample follow the segment")
	for i := 0; i < L+n; i++ {
		vCheck(stream.rawData[i] == truth[i], "append: contents are the concatenation")
		vCheck(stream.TimeOf(i).UnixNano() == T+int64(i*fps)*P, "TimeOf(i) = first time + i x frames per sample x period")
	}
	// trim to any N
	N := vRange("N", 0, L+n+1)
	got := stream.TrimKeepingN(N)
	keep := N
	if keep > L+n {
		keep = L + n
	}
	vCheck(got == keep && len(stream.rawData) == keep, "trim keeps min(N, length) samples")
	drop := L + n - keep
	vCheck(stream.firstFrameIndex == F+FrameIndex(drop*fps), "trim advances the first frame by the dropped samples")
	vCheck(stream.firstTime.UnixNano() == T+int64(drop*fps)*P, "trim advances the first time by the dropped samples")
	for i := 0; i < keep; i++ {
		vCheck(stream.rawData[i] == truth[drop+i], "trim keeps the most recent samples")
	}
	// cut a record at any valid position of what is left
	if keep >= 2 {
		dsp := NewDataStreamProcessor(3, nil, 1, 2)
		dsp.stream = *stream
		dsp.SampleRate = 1e4
		i := vRange("i", 1, keep-1)
		rec := dsp.triggerAtSpecificSamples(i, 1, 2)
		vCheck(len(rec.data) == 2 && rec.presamples == 1 && rec.channelIndex == 3, "record shape and channel")
		vCheck(rec.data[0] == truth[drop+i-1] && rec.data[1] == truth[drop+i], "record samples are the stream samples around i")
		vCheck(rec.trigTime.UnixNano() == T+int64((drop+i)*fps)*P, "record time is the time of sample i")
		if fps == 1 {
			vCheck(rec.trigFrame == F+FrameIndex(drop+i), "record frame is the frame of sample i")
		}
	}
	vObserve("keep", int64(keep))
	vWitness("c01bookkeeping-end")
}
