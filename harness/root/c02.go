package dastard

// C02 — no pulse lost or invented: triggers are sound and complete across block edges,
// for every control history that leads to the settings.

import "time"

type c02Cfg struct {
	ts            TriggerState
	edge, level   bool
	auto          bool
	autoDelaySamp int
}

func c02Config(cfg int) c02Cfg {
	c := c02Cfg{ts: TriggerState{AutoDelay: 250 * time.Millisecond, EdgeLevel: 100, LevelLevel: 4000}}
	setEdge := func(rising, falling bool) {
		c.edge = true
		c.ts.EdgeTrigger, c.ts.EdgeRising, c.ts.EdgeFalling = true, rising, falling
		c.ts.EdgeLevel = int32(vSymU16("edgeLevel"))
		vAssume(c.ts.EdgeLevel >= 1)
	}
	setLevel := func(rising bool) {
		c.level = true
		c.ts.LevelTrigger, c.ts.LevelRising = true, rising
		c.ts.LevelLevel = RawType(vSymU16("levelLevel"))
	}
	setAuto := func(samples int) {
		c.auto = true
		c.autoDelaySamp = samples
		c.ts.AutoTrigger = true
		c.ts.AutoDelay = time.Duration(samples) * 100 * time.Microsecond
	}
	switch cfg {
	case 0:
		setEdge(true, false)
	case 1:
		setEdge(true, true)
	case 2:
		setLevel(true)
	case 3:
		setLevel(false)
	case 4:
		setAuto(vRange("autoDelay", 0, 2) * 7) // 0, 7, 14 samples
	case 5:
		setEdge(true, false)
		setLevel(true)
	case 6:
		setEdge(false, true)
		setAuto(7)
	}
	return c
}

// verifC02: build the processor by one of the control histories, feed a symbolic stream
// cut into blocks, then compare the emitted primaries with an independent scan.
func verifC02() {
	npre := vParam("npre", 3)
	nsamp := []int{vParam("nsampA", 4), vParam("nsampB", 12)}[vRange("nsampsel", 0, 1)]
	hist := vRange("history", 0, vParam("maxhistory", 4))
	if hist == 4 {
		// a pulse-length request that ENLARGES the record beyond 2 x old + 10 samples
		if nsamp != vParam("nsampB", 12) {
			vAssume(false)
		}
		nsamp = vParam("nsampC", 20)
	}
	cfgNo := vRange("cfg", 0, vParam("maxcfg", 6))
	nblocks := vRange("nblocks", 2, vParam("maxblocks", 2))
	maxblk := nsamp + vParam("blockextra", 5)
	lens := make([]int, nblocks)
	total := 0
	for b := range lens {
		bs := string(rune('0' + b))
		if vParam("fulllens", 0) == 1 {
			lens[b] = vRange("len"+bs, 1, maxblk)
		} else if b == 0 {
			// first block: long enough that something is scanned, every boundary phase
			lens[b] = vRange("len"+bs, nsamp, maxblk)
		} else {
			lens[b] = []int{2, 5, nsamp + 1}[vRange("len"+bs, 0, 2)]
		}
		total += lens[b]
	}
	if (cfgNo == 2 || cfgNo == 3 || cfgNo == 5) && (nsamp > vParam("levelmaxnsamp", 4) || total > vParam("levelmaxtotal", 14)) {
		vAssume(false) // level crossings fork at every sample: short records / streams only
	}
	if hist == 4 && cfgNo >= 2 && cfgNo <= 5 {
		vAssume(false) // long streams: edge configurations only
	}
	cfg := c02Config(cfgNo)
	full := []FullTriggerState{{ChannelIndices: []int{0}, TriggerState: cfg.ts}}
	var rig *tRig
	// frame0zero: the stream starts at frame 0, as every real source's does after Start
	// (otherwise: an arbitrary first frame >= 1000)
	symF0 := vParam("frame0zero", 0) == 0
	switch hist {
	case 0: // fresh start with trigger settings restored from the saved configuration
		rig = newTRig(1, npre, nsamp, total, full, symF0)
	case 1: // fresh start, then a trigger request
		rig = newTRig(1, npre, nsamp, total, nil, symF0)
		vCheck(rig.ds.ChangeTriggerState(&full[0]) == nil, "ChangeTriggerState accepted")
	case 2: // restored settings, then a pulse-length request that changes nothing
		rig = newTRig(1, npre, nsamp, total, full, symF0)
		vCheck(rig.ds.ConfigurePulseLengths(nsamp, npre) == nil, "ConfigurePulseLengths accepted")
	case 3: // trigger request, then a pulse-length request that shortens the record
		rig = newTRig(1, npre, nsamp+3, total, nil, symF0)
		vCheck(rig.ds.ChangeTriggerState(&full[0]) == nil, "ChangeTriggerState accepted")
		vCheck(rig.ds.ConfigurePulseLengths(nsamp, npre) == nil, "ConfigurePulseLengths accepted")
	default: // trigger request, then a pulse-length request that lengthens the record a lot
		rig = newTRig(1, npre, 4, total, nil, symF0)
		vCheck(rig.ds.ChangeTriggerState(&full[0]) == nil, "ChangeTriggerState accepted")
		vCheck(rig.ds.ConfigurePulseLengths(nsamp, npre) == nil, "ConfigurePulseLengths accepted")
		rig.nsamp = nsamp
	}
	rig.signed = vRange("signed", 0, 1) == 1
	if !symF0 {
		rig.frame0 = 0
	}
	var trigs []int
	for b := 0; b < nblocks; b++ {
		rig.feed(lens[b])
		for _, batch := range rig.batches {
			for _, rec := range batch {
				rig.checkExcerpt(rec, npre, nsamp)
				trigs = append(trigs, vConcrete(rig.sampleIndex(rec)))
			}
		}
	}
	x := rig.truth[0]
	// Sample values as the trigger passes see them: signed data are shifted up by 2^15 so
	// that unsigned comparisons order them correctly. That this shift preserves the signed
	// meaning of the edge and level criteria is a separate lemma (verifC02SignedLemma).
	val := func(i int) int32 {
		if rig.signed {
			return int32(x[i] + 32768)
		}
		return int32(x[i])
	}
	edgeCrit := func(i int) bool {
		diff := val(i) + val(i-1) - val(i-2) - val(i-3)
		c := false
		if cfg.ts.EdgeRising {
			c = vOr(c, diff >= cfg.ts.EdgeLevel)
		}
		if cfg.ts.EdgeFalling {
			c = vOr(c, diff <= -cfg.ts.EdgeLevel)
		}
		return c
	}
	thr := cfg.ts.LevelLevel
	if rig.signed {
		thr += 32768
	}
	uval := func(i int) RawType {
		if rig.signed {
			return x[i] + 32768
		}
		return x[i]
	}
	levelCrit := func(i int) bool {
		if cfg.ts.LevelRising {
			return vAnd(uval(i) >= thr, uval(i-1) < thr)
		}
		return vAnd(uval(i) <= thr, uval(i-1) > thr)
	}
	isTrig := func(i int) bool {
		for _, t := range trigs {
			if t == i {
				return true
			}
		}
		return false
	}
	frontier := total + npre - nsamp // every sample index below this has had its chance
	for k := 1; k < len(trigs); k++ {
		vCheck(trigs[k-1] < trigs[k], "primaries come in increasing frame order")
	}
	// soundness
	if !cfg.auto {
		for _, t := range trigs {
			ok := false
			if cfg.edge {
				ok = vOr(ok, edgeCrit(t))
			}
			if cfg.level {
				ok = vOr(ok, levelCrit(t))
			}
			vCheck(ok, "every primary record sits on a sample satisfying an enabled criterion")
		}
	}
	// completeness
	for i := npre; i < frontier; i++ {
		if isTrig(i) {
			continue
		}
		if cfg.edge {
			dead := false
			for _, t := range trigs {
				if t < i && i <= t+nsamp {
					dead = true
				}
			}
			if !dead {
				vCheck(!edgeCrit(i), "every sample satisfying the edge criterion is a trigger or lies in the dead time after one")
			}
		}
		if cfg.level {
			near := false
			for _, t := range trigs {
				if i-t <= nsamp && t-i <= nsamp {
					near = true
				}
			}
			if !near {
				vCheck(!levelCrit(i), "every sample satisfying the level criterion is a trigger or lies within one record of one")
			}
		}
	}
	// edge-only records never overlap
	if cfg.edge && !cfg.level && !cfg.auto {
		for k := 1; k < len(trigs); k++ {
			vCheck(trigs[k]-trigs[k-1] >= nsamp, "edge-only records do not overlap")
		}
	}
	// auto trigger without veto: bounded gaps
	if cfg.auto {
		d := cfg.autoDelaySamp
		if d < nsamp {
			d = nsamp
		}
		last := npre - d // the first auto trigger is due at the first triggerable sample
		for _, t := range trigs {
			vCheck(t-last <= d+nsamp, "auto trigger: gap between successive triggers at most delay (or one record) plus one record")
			last = t
		}
		vCheck(frontier-1-last <= d+nsamp, "auto trigger: no over-long gap before the scan frontier")
	}
	vObserve("ntrig", int64(len(trigs)))
	vWitness("c02-end")
}

// verifC02SignedLemma: shifting signed samples up by 2^15 (what the trigger passes do)
// preserves the signed meaning of the edge difference and of level comparisons.
func verifC02SignedLemma() {
	a, b, c, d := vSymU16("a"), vSymU16("b"), vSymU16("c"), vSymU16("d")
	shifted := int32(a+32768) + int32(b+32768) - int32(c+32768) - int32(d+32768)
	signed := int32(int16(a)) + int32(int16(b)) - int32(int16(c)) - int32(int16(d))
	vCheck(shifted == signed, "edge difference of shifted samples = difference of the signed values")
	thr := vSymU16("thr")
	vCheck((a+32768 >= thr+32768) == (int16(a) >= int16(thr)), "shifted >= comparison = signed comparison")
	vCheck((a+32768 < thr+32768) == (int16(a) < int16(thr)), "shifted < comparison = signed comparison")
	vCheck((a+32768 <= thr+32768) == (int16(a) <= int16(thr)), "shifted <= comparison = signed comparison")
	vCheck((a+32768 > thr+32768) == (int16(a) > int16(thr)), "shifted > comparison = signed comparison")
	vObserve("a", int64(a))
	vWitness("c02lemma-end")
}
