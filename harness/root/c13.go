package dastard

// C13 — per-record analysis values equal their definitions (idealised real arithmetic).

import (
	"gonum.org/v1/gonum/mat"
)

func c13Value(rec *DataRecord, i int) float64 {
	if rec.signed {
		return float64(int16(rec.data[i]))
	}
	return float64(rec.data[i])
}

// verifC13Analyze: AnalyzeData on a record with symbolic samples (signed / unsigned).
func verifC13Analyze() {
	npre := vRange("npre", 3, vParam("maxnpre", 4))
	npost := vRange("npost", 1, vParam("maxnpost", 3))
	n := npre + npost
	// the channel's nominal pre-trigger length may exceed the record's own: variable-length
	// (edge-multi) records are shortened at the front; the formulas use the record's lengths
	extra := vRange("chanextra", 0, 1)
	dsp := NewDataStreamProcessor(0, nil, npre+extra, n+extra)
	rec := &DataRecord{data: make([]RawType, n), presamples: npre, signed: vRange("signed", 0, 1) == 1}
	boundary := vParam("boundary", 0) == 1
	for i := range rec.data {
		if boundary {
			// every sample from the boundary values of the 16-bit range (concrete arithmetic,
			// compared up to rounding): the sign change at 0x8000, both rails
			rec.data[i] = []RawType{0, 1, 0x7fff, 0x8000, 0xffff, 300}[vRange("d"+string(rune('a'+i)), 0, 5)]
		} else {
			rec.data[i] = RawType(vSymU16R("d" + string(rune('a'+i))))
		}
	}
	dsp.AnalyzeData([]*DataRecord{rec})

	// pre-trigger mean
	sum := 0.0
	for i := 0; i < npre; i++ {
		sum += c13Value(rec, i)
	}
	ptm := sum / float64(npre)
	vCheck(vRealEq(rec.pretrigMean, ptm), "pretrigger mean = sum of pre-trigger samples / npre")
	// pre-trigger delta = least-squares slope x (npre-1)
	xbar := float64(npre-1) / 2
	sxx, sxy := 0.0, 0.0
	for i := 0; i < npre; i++ {
		dx := float64(i) - xbar
		sxx += dx * dx
		sxy += dx * (c13Value(rec, i) - ptm)
	}
	vCheck(vRealEq(rec.pretrigDelta*sxx, sxy*float64(npre-1)), "pretrigger delta = least-squares slope x pre-trigger span")
	// pulse average, RMS, peak: relative to the pre-trigger mean, over the post-trigger samples
	psum, psq := 0.0, 0.0
	for i := npre; i < n; i++ {
		d := c13Value(rec, i) - ptm
		psum += d
		psq += d * d
	}
	N := float64(npost)
	vCheck(vRealEq(rec.pulseAverage, psum/N), "pulse average = mean of (sample - pretrigger mean) after the trigger")
	vCheck(vRealLe(0, rec.pulseRMS), "pulse RMS is non-negative")
	if boundary {
		// concrete float64 arithmetic: the code's expanded form (sum of squares minus cross
		// term) loses digits by cancellation at full scale; compare with an absolute allowance
		diff := rec.pulseRMS*rec.pulseRMS - psq/N
		vCheck(diff < 1e-3 && diff > -1e-3, "pulse RMS^2 = mean squared deviation from the pretrigger mean (to rounding)")
	} else {
		vCheck(vRealEq(rec.pulseRMS*rec.pulseRMS, psq/N), "pulse RMS^2 = mean squared deviation from the pretrigger mean")
	}
	isOne := vRealEq(rec.peakValue, 0) // the pre-trigger mean itself takes part in the maximum
	vCheck(vRealLe(0, rec.peakValue), "peak value >= 0 (the pretrigger mean takes part in the maximum)")
	for i := npre; i < n; i++ {
		d := c13Value(rec, i) - ptm
		vCheck(vRealLe(d, rec.peakValue), "peak value >= every post-trigger sample minus the pretrigger mean")
		isOne = vOr(isOne, vRealEq(rec.peakValue, d))
	}
	vCheck(isOne, "peak value is attained")
	vObserve("n", int64(n))
	vWitness("c13analyze-end")
}

// verifC13Projectors: model coefficients = projectors x record; residual std dev = population
// standard deviation of record - basis x coefficients; shape validation of SetProjectorsBasis.
func verifC13Projectors() {
	n := vRange("n", 4, vParam("maxn", 5))
	nb := vRange("nbases", 1, vParam("maxbases", 2))
	npre := 3
	dsp := NewDataStreamProcessor(0, nil, npre, n)
	pdat := make([]float64, nb*n)
	bdat := make([]float64, n*nb)
	if vParam("concretematrices", 0) == 1 {
		// fixed small-integer matrices: everything is linear in the samples, so that
		// counterexamples are found (and replay) quickly
		for i := range pdat {
			pdat[i] = float64((i*7+3)%5 - 2)
		}
		for i := range bdat {
			bdat[i] = float64((i*5+1)%7 - 3)
		}
	} else {
		for i := range pdat {
			pdat[i] = float64(vSymI8R("p" + string(rune('a'+i))))
		}
		for i := range bdat {
			bdat[i] = float64(vSymI8R("b" + string(rune('a'+i))))
		}
	}
	P := mat.NewDense(nb, n, pdat)
	B := mat.NewDense(n, nb, bdat)
	// wrong shapes must be rejected and leave the channel without projectors
	bad := vRange("badshape", 0, 3)
	switch bad {
	case 1:
		vCheck(dsp.SetProjectorsBasis(mat.NewDense(nb, n+1, make([]float64, nb*(n+1))), B, "x") != nil, "projectors with the wrong number of columns are rejected")
	case 2:
		vCheck(dsp.SetProjectorsBasis(P, mat.NewDense(n, nb+1, make([]float64, n*(nb+1))), "x") != nil, "basis with the wrong number of columns is rejected")
	case 3:
		vCheck(dsp.SetProjectorsBasis(P, mat.NewDense(n+1, nb, make([]float64, (n+1)*nb)), "x") != nil, "basis with the wrong number of rows is rejected")
	}
	if bad != 0 {
		vCheck(!dsp.HasProjectors(), "a rejected request loads nothing")
		vWitness("c13projectors-rejected")
		return
	}
	vCheck(dsp.SetProjectorsBasis(P, B, "model") == nil, "compatible shapes are accepted")
	// a batch of records analysed in one call, as after a block with several triggers:
	// every record must get its own values
	signed := vRange("signed", 0, 1) == 1
	nrec := vParam("batch", 2)
	recs := make([]*DataRecord, nrec)
	for q := range recs {
		recs[q] = &DataRecord{data: make([]RawType, n), presamples: npre, signed: signed}
		for i := range recs[q].data {
			recs[q].data[i] = RawType(vSymU16R("d" + string(rune('0'+q)) + string(rune('a'+i))))
		}
	}
	dsp.AnalyzeData(recs)
	for _, rec := range recs {
		vCheck(len(rec.modelCoefs) == nb, "one coefficient per basis vector")
		coef := make([]float64, nb)
		for k := 0; k < nb; k++ {
			for i := 0; i < n; i++ {
				coef[k] += pdat[k*n+i] * c13Value(rec, i)
			}
			if k < len(rec.modelCoefs) {
				vCheck(vRealEq(rec.modelCoefs[k], coef[k]), "model coefficient k = row k of the projectors x record")
			}
		}
		res := make([]float64, n)
		mean := 0.0
		for i := 0; i < n; i++ {
			m := 0.0
			for k := 0; k < nb; k++ {
				m += bdat[i*nb+k] * coef[k]
			}
			res[i] = c13Value(rec, i) - m
			mean += res[i]
		}
		mean /= float64(n)
		v := 0.0
		for i := 0; i < n; i++ {
			v += (res[i] - mean) * (res[i] - mean)
		}
		vCheck(vRealLe(0, rec.residualStdDev), "residual std dev is non-negative")
		vCheck(vRealEq(rec.residualStdDev*rec.residualStdDev, v/float64(n)), "residual std dev^2 = population variance of record - basis x coefficients")
	}
	vObserve("n", int64(n))
	vWitness("c13projectors-end")
}
