package dastard

// C11 — control requests: serialised with data, answered once, never wedge or crash.

import (
	"os"
	"path/filepath"
	"time"

	"github.com/usnistgov/dastard/packets"
)

// c11RealProcessing: the core loop runs the real ProcessSegments (C17) instead of a summary.
var c11RealProcessing bool

// c11TriangleMax sets the block length of the Triangle source (2 x (max-100) samples).
var c11TriangleMax RawType = 102

type c11Server struct {
	sc *SourceControl
	ts *TriangleSource
}

// c11Start builds a SourceControl by hand (the real constructor probes hardware) around a
// real Triangle source (or the self-terminating erroring source) and starts it through the
// real Start: the core loop then runs the request closures exactly as in the server.
func c11Start(kind int) *SourceControl {
	vClockConcrete()
	if c11RealProcessing {
		vStub("(*github.com/usnistgov/dastard.DataStreamProcessor).AnalyzeData")
		vStub("(*github.com/usnistgov/dastard.TriggerCounter).countNewTriggers")
	} else {
		vStub("(*github.com/usnistgov/dastard.AnySource).ProcessSegments") // block contents are not the subject
	}
	PubRecordsChan = make(chan []*DataRecord, 16)
	PubSummariesChan = make(chan []*DataRecord, 16)
	sc := new(SourceControl)
	sc.heartbeats = make(chan Heartbeat)
	sc.queuedRequests = make(chan func())
	sc.queuedResults = make(chan error)
	sc.clientUpdates = clientMessageChan
	sc.mapServer = newMapServer()
	sc.status.Npresamp, sc.status.Nsamples = 3, 4
	go func() { // the status and heartbeat consumers of the real server
		for {
			select {
			case <-clientMessageChan:
			case <-sc.heartbeats:
			}
		}
	}()
	var ds DataSource
	if kind == 0 {
		ts := NewTriangleSource()
		ts.Configure(&TriangleSourceConfig{Nchan: 2, SampleRate: 10000, Min: 100, Max: c11TriangleMax})
		ds = ts
	} else if kind == 2 {
		// an Abaco source behind a scripted packet producer: getNextBlock launches a
		// block-assembly goroutine per call, as the hardware sources do
		as := new(AbacoSource)
		as.name = "Abaco"
		as.groups = make(map[GroupIndex]*AbacoGroup)
		as.channelsPerPixel = 1
		as.subframeDivisions = abacoSubframeDivisions
		as.producers = []PacketProducer{&c10Producer{sample: [][]*packets.Packet{c10DataPackets()}}}
		ds = as
	} else {
		ds = NewErroringSource()
	}
	sc.ActiveSource = ds
	base := os.Getenv("VERIF_WORK")
	if base == "" {
		base = "/data"
	}
	err := Start(ds, sc.queuedRequests, 3, 4)
	vCheck(err == nil, "Start succeeds")
	sc.isSourceActive = true
	sc.status.Running = true // as SourceControl.Start does
	if kind == 0 {
		ds.(*TriangleSource).writingState.BasePath = base
	}
	return sc
}

var c11Kinds = []string{"ConfigureTriggers", "ConfigurePulseLengths", "WriteControl", "SetExperimentStateLabel", "WriteComment",
	"CoupleErrToFB", "CoupleFBToErr", "AddGroupTriggerCoupling", "DeleteGroupTriggerCoupling", "StopTriggerCoupling", "StoreRawDataBlock", "ConfigureMixFraction"}

// c11Prepare builds one control request with symbolic arguments and returns (a function that
// issues it — any number of times, with the same arguments —, whether the arguments were valid
// per the property's list, whether validity is known).
func c11Prepare(sc *SourceControl, kind int, tag string, nchan int) (func() error, bool, bool) {
	var reply bool
	valid, known := true, true
	switch c11Kinds[kind] {
	case "ConfigureTriggers":
		idx := vRange("chan"+tag, -2, nchan+1)
		nidx := vRange("nchans"+tag, 0, 2)
		var list []int
		for i := 0; i < nidx; i++ {
			list = append(list, idx+i*0)
		}
		valid = nidx > 0 && idx >= 0 && idx < nchan
		st := &FullTriggerState{ChannelIndices: list}
		st.LevelTrigger, st.LevelRising, st.LevelLevel = true, true, RawType(vSymU16("level"+tag))
		return func() error { return sc.ConfigureTriggers(st, &reply) }, valid, known
	case "ConfigurePulseLengths":
		ns, np := vRange("nsamp"+tag, -1, 6), vRange("npre"+tag, -1, 6)
		valid = np >= 3 && ns >= np+1
		return func() error { return sc.ConfigurePulseLengths(SizeObject{Nsamp: ns, Npre: np}, &reply) }, valid, known
	case "WriteControl":
		reqs := []string{"START", "STOP", "PAUSE", "UNPAUSE", "UNPAUSE x", "UNPAUSEx", "bogus"}
		r := vRange("wreq"+tag, 0, len(reqs)-1)
		known = false // validity depends on the writing state: only "exactly one reply, no hang, no crash" here
		return func() error { return sc.WriteControl(&WriteControlConfig{Request: reqs[r], WriteLJH22: true}, &reply) }, valid, known
	case "SetExperimentStateLabel":
		lab := []string{"", "calib"}[vRange("label"+tag, 0, 1)]
		known = false
		return func() error { return sc.SetExperimentStateLabel(&StateLabelConfig{Label: lab, WaitForError: true}, &reply) }, valid, known
	case "WriteComment":
		c := []string{"", "a comment"}[vRange("comment"+tag, 0, 1)]
		valid = c != ""
		return func() error { return sc.WriteComment(&c, &reply) }, valid, known
	case "CoupleErrToFB":
		b := vRange("couple"+tag, 0, 1) == 1
		known = false // generic sources refuse coupling: an error reply is right
		return func() error { return sc.CoupleErrToFB(&b, &reply) }, valid, known
	case "CoupleFBToErr":
		b := vRange("couple"+tag, 0, 1) == 1
		known = false
		return func() error { return sc.CoupleFBToErr(&b, &reply) }, valid, known
	case "AddGroupTriggerCoupling", "DeleteGroupTriggerCoupling":
		s, r := vRange("src"+tag, -1, nchan), vRange("rcv"+tag, -1, nchan)
		gts := GroupTriggerState{Connections: map[int][]int{s: {r}}}
		valid = s >= 0 && s < nchan && r >= 0 && r < nchan
		if c11Kinds[kind] == "AddGroupTriggerCoupling" {
			return func() error { return sc.AddGroupTriggerCoupling(gts, &reply) }, valid, known
		}
		known = false // deleting a connection that cannot exist is harmless
		return func() error { return sc.DeleteGroupTriggerCoupling(&gts, &reply) }, valid, known
	case "StopTriggerCoupling":
		var d bool
		return func() error { return sc.StopTriggerCoupling(&d, &reply) }, valid, known
	case "StoreRawDataBlock":
		n := []int{-2, -1, 100000}[vRange("nraw"+tag, 0, 2)]
		valid = n > 0
		var name string
		return func() error { return sc.StoreRawDataBlock(n, &name) }, valid, known
	default:
		known = false
		return func() error { return sc.ConfigureMixFraction(&MixFractionObject{ChannelIndices: []int{0}, MixFractions: []float64{0.5}}, &reply) }, valid, known
	}
}

// c11Request issues the request once.
func c11Request(sc *SourceControl, kind int, tag string, nchan int) (error, bool, bool) {
	do, valid, known := c11Prepare(sc, kind, tag, nchan)
	return do(), valid, known
}

// verifC11Requests: one control request with symbolic arguments (and possibly one I/O fault
// in its handler) against a running source, followed by a second, well-formed request:
// both callers get their reply (no hang: a closure that replies twice or never blocks the
// core loop or the caller for ever, which the engine reports as a deadlock), nothing
// panics, and invalid arguments produce an error.
func verifC11Requests() {
	vWatchdog(20)
	sc := c11Start(0)
	nchan := 2
	writing := vRange("writing", 0, 1) == 1
	if writing {
		var reply bool
		vCheck(sc.WriteControl(&WriteControlConfig{Request: "START", WriteLJH22: true}, &reply) == nil, "START accepted")
	}
	nfaults := vRange("iofaults", 0, 1)
	vFaults(nfaults)
	kind := vRange("request", 0, len(c11Kinds)-1)
	if nfaults == 1 && writing && !vSymbolic() && c11Kinds[kind] == "WriteComment" {
		// native counterpart of the injected fault: make the comment file uncreatable
		ws := sc.ActiveSource.ComputeWritingState()
		os.RemoveAll(filepath.Dir(ws.FilenamePattern))
	}
	do, valid, known := c11Prepare(sc, kind, "0", nchan)
	err := do()
	vFaults(0)
	if !valid {
		vCheck(err != nil, "invalid arguments are answered with an error")
		vCheck(do() != nil, "the same invalid request is answered with an error again")
	} else if known && !writing {
		_ = err
	}
	// the server is still alive and answering: a second, harmless request gets its reply
	var d bool
	vCheck(sc.StopTriggerCoupling(&d, &d) == nil || true, "a following request is answered")
	var dummy string
	var reply bool
	vCheck(sc.Stop(&dummy, &reply) == nil, "Stop is answered")
	vCheck(!sc.isSourceActive, "after Stop the server knows no source is active")
	var r2 bool
	vCheck(sc.StopTriggerCoupling(&d, &r2) != nil, "a request without an active source is answered with an error")
	vObserve("kind", int64(kind))
	vWitness("c11requests-end")
}

// verifC11Dead: the source has stopped by itself (error block); a request arriving afterwards
// must still be answered (with an error), not block for ever.
func verifC11Dead() {
	vWatchdog(20)
	sc := c11Start(1)
	vSettle(200) // the erroring source ends its core loop by itself
	kind := vRange("request", 0, len(c11Kinds)-1)
	err, _, _ := c11Request(sc, kind, "0", 1)
	if c11Kinds[kind] == "ConfigurePulseLengths" && err == nil {
		// asking for the lengths already in force is answered "nothing to do" without
		// consulting the source: acceptable
	} else {
		vCheck(err != nil, "a request arriving after the source died is answered with an error")
	}
	vObserve("kind", int64(kind))
	vWitness("c11dead-end")
}

// verifC11Dying: the request arrives while the self-terminating source is still running; the
// source may end by itself before or after the core loop takes the request off the queue
// (every order of the two): the caller gets exactly one reply either way.
func verifC11Dying() {
	vWatchdog(20)
	if !vSymbolic() {
		// native replay: hold the core loop back once, so that the request is already
		// waiting (and its retry timer has fired) when the loop chooses between the
		// request and the source's error block — the interleavings the engine explores
		hits := 0
		VerifHook = func(name string, args ...interface{}) {
			if name == "coreloop:select" {
				hits++
				if hits == 1 {
					time.Sleep(150 * time.Millisecond)
				}
			}
		}
		defer func() { VerifHook = nil }()
	}
	sc := c11Start(1)
	kind := []int{5, 9, 0}[vRange("request", 0, 2)] // CoupleErrToFB, StopTriggerCoupling, ConfigureTriggers
	err, _, _ := c11Request(sc, kind, "0", 1)
	_ = err // answered by the core loop, or refused because the source has gone: both are replies
	vSettle(200)
	var d, r2 bool
	vCheck(sc.StopTriggerCoupling(&d, &r2) != nil, "once the source has ended a request is answered with an error")
	vCheck(!sc.isSourceActive, "the server has noticed that the source ended")
	vObserve("kind", int64(kind))
	vWitness("c11dying-end")
}

// verifC11Abaco: control requests against a running source whose getNextBlock launches a
// block-assembly goroutine per call (Abaco; Lancero is built the same way): each request is
// answered, the core loop keeps exactly one assembly in flight, and Stop ends the run without
// a crash.
func verifC11Abaco() {
	vWatchdog(20)
	vTimersQuiet()
	sc := c11Start(2)
	nreq := vRange("nrequests", 1, 2)
	for k := 0; k < nreq; k++ {
		var d, reply bool
		vCheck(sc.StopTriggerCoupling(&d, &reply) == nil, "a request to the running source is answered")
	}
	var dummy string
	var reply bool
	vCheck(sc.Stop(&dummy, &reply) == nil, "Stop is answered")
	vSettle(100)
	vCheck(sc.ActiveSource.GetState() == Inactive, "after Stop the source is inactive")
	vCheck(vLiveGoroutines() <= 1, "no block-assembly or reader goroutine is left behind")
	vObserve("nreq", int64(nreq))
	vWitness("c11abaco-end")
}
