package packets

// C15 — packet decoding is total and inverse to encoding.

import (
	"bytes"
)

// c15Alphabet: the characters a symbolic format/label byte may take. The decoder's
// switch has one class per listed character plus "anything else" (represented by
// 'z' and by a non-ASCII byte), so this is a complete case split of its behaviour.
var c15Alphabet = []byte{0, 'h', '>', 'i', '<', 'q', 'H', 'x', 'z', 0xc3}

func c15AlphaByte(name string, k int) byte {
	i := vRange(name, 0, k-1)
	return c15Alphabet[i]
}

// one TLV (8 bytes; the external-trigger label takes 16) with a case-split kind and
// symbolic body. Returns the number of 8-byte blocks used. TLV kinds whose body the
// decoder turns into a Go string (format, label) get bodies from a small alphabet and
// a case-split length byte; every other kind has a fully symbolic body and length byte
// (so it may also swallow following blocks or overrun the header).
func c15TLV(buf []byte, pos int, idx string, nfmt int, alpha int, room int, kmax int) int {
	kind := vRange("tlvkind"+idx, 0, kmax)
	if ok := vParam("onlykind"+idx, -1); ok >= 0 && kind != ok {
		vAssume(false)
	}
	for j := 1; j < 8; j++ {
		buf[pos+j] = vSymU8("tlv" + idx + "b" + string(rune('0'+j)))
	}
	lenChoice := func() byte {
		switch vRange("tlvlen"+idx, 0, 2) {
		case 0:
			return 1
		case 1:
			return 0
		}
		return 200
	}
	switch kind {
	case 0:
		buf[pos] = tlvFORMAT
		buf[pos+1] = lenChoice()
		for j := 2; j < 8; j++ {
			if j-2 < nfmt {
				buf[pos+j] = c15AlphaByte("fmt"+idx+string(rune('0'+j)), alpha)
			} else {
				buf[pos+j] = 0
			}
		}
	case 1:
		// shape sizes are case-split (the frame count divides by their product, and a
		// symbolic 64-bit divisor is out of the solver's reach): small sizes, zero,
		// negative, and 2^14 whose repeated product wraps around 2^64
		buf[pos] = tlvSHAPE
		sizes := []int16{0, 1, 2, 3, -1, 0x4000}
		put := func(at int, v int16) { buf[at] = byte(uint16(v) >> 8); buf[at+1] = byte(v) }
		put(pos+2, sizes[vRange("shapeA"+idx, 0, 5)])
		put(pos+4, sizes[vRange("shapeB"+idx, 0, 2)*2]) // 0, 2, -1
		put(pos+6, sizes[5*vRange("shapeC"+idx, 0, 1)]) // 0, 2^14
		if room >= 2 && vRange("shapelong"+idx, 0, 1) == 1 {
			// a 16-byte shape TLV: four more sizes, all equal
			buf[pos+1] = 2
			v := sizes[[]int{0, 2, 5}[vRange("shapeD"+idx, 0, 2)]]
			for j := 8; j < 16; j += 2 {
				put(pos+j, v)
			}
			return 2
		}
		buf[pos+1] = lenChoice()
	case 2:
		buf[pos] = tlvCHANOFFSET
	case 3:
		buf[pos] = tlvPAYLOADLABEL
		if room >= 2 && vRange("label"+idx, 0, 1) == 1 {
			// the label that marks external-trigger packets (14 characters, 16-byte TLV)
			buf[pos+1] = 2
			copy(buf[pos+2:pos+16], "value,active,t")
			if vRange("labelmiss"+idx, 0, 1) == 1 {
				buf[pos+15] = 'x'
			}
			return 2
		}
		buf[pos+1] = lenChoice()
		copy(buf[pos+2:pos+8], "other\x00")
	case 4:
		buf[pos] = tlvTIMESTAMPUNIT
	case 6:
		buf[pos] = tlvTIMESTAMP
	case 7:
		buf[pos] = tlvCOUNTER
	case 8:
		buf[pos] = tlvTAG
	case 9:
		buf[pos] = tlvNULL
	default: // 5: any other type byte
		t := vSymU8("tlvtype" + idx)
		vAssume(t != tlvFORMAT && t != tlvPAYLOADLABEL && t != tlvSHAPE)
		buf[pos] = t
	}
	return 1
}

// c15Accessors calls every accessor the property lists on a decoded packet and
// checks that the sizes they report are mutually consistent.
func c15Accessors(p *Packet, consumed int) {
	vCheck(p.Length() == int(p.headerLength)+int(p.payloadLength), "Length = header + payload")
	vCheck(consumed <= p.Length(), "decoder consumes no more bytes than the header declares")
	frames := p.Frames()
	vCheck(frames >= 0, "Frames non-negative")
	_ = p.SequenceNumber()
	_ = p.Timestamp()
	ext := p.IsExternalTrigger()
	_ = p.String()
	nchan, _ := p.ChannelInfo()
	vCheck(nchan >= 1, "ChannelInfo: at least one channel")
	if p.format != nil && p.shape != nil {
		vCheck(frames*nchan*p.format.wordlen <= int(p.payloadLength), "Frames x channels x wordlen fits the payload")
	}
	switch d := p.Data.(type) {
	case []int16:
		vCheck(2*len(d) <= int(p.payloadLength), "int16 payload within declared length")
		vCheck(frames*nchan <= len(d), "frames x channels within data")
	case []int32:
		vCheck(4*len(d) <= int(p.payloadLength), "int32 payload within declared length")
		vCheck(frames*nchan <= len(d), "frames x channels within data")
	case []int64:
		vCheck(8*len(d) <= int(p.payloadLength), "int64 payload within declared length")
		vCheck(frames*nchan <= len(d), "frames x channels within data")
	case []byte:
		vCheck(len(d) == int(p.payloadLength), "raw payload = declared length")
	}
	for s := -1; s <= frames && s < 4; s++ {
		_ = p.ReadValue(s)
	}
	q := p.MakePretendPacket(p.SequenceNumber()+1, nchan)
	vCheck(q.Frames() == frames && q.Length() == p.Length(), "filler packet has the same size")
	vCheck(q.SequenceNumber() == p.SequenceNumber()+1, "filler packet carries the requested sequence number")
	_ = ext
}

// verifC15Total: ReadPacket on an arbitrary datagram (bounded size) never panics;
// on success every accessor is safe and consistent.
func verifC15Total() {
	ktlv := vRange("ntlv", 0, vParam("maxtlv", 2))
	maxpay := vParam("maxpayload", 8)
	nfmt := vParam("fmtchars", 2)
	alpha := vParam("alphabet", 8)
	ncuts := vParam("cuts", 2)
	kmax := 9
	if ktlv >= 2 {
		// two or more TLVs: fewer format characters / cut points (stated in the bounds)
		nfmt = vParam("fmtchars2", 2)
		alpha = vParam("alphabet2", 4)
		ncuts = vParam("cuts2", 1)
		maxpay = vParam("maxpayload2", 4)
		kmax = vParam("kinds2", 5)
	}
	hl := 16 + 8*ktlv
	hlmode := 0
	if ktlv < 2 {
		hlmode = vRange("hlmode", 0, 2)
	}
	badmagic := vRange("badmagic", 0, 1) == 1
	if badmagic && (ktlv > 0 || hlmode != 0) {
		vAssume(false) // the magic test comes before TLV parsing: one representative suffices
	}
	pay := int(vSymU16("payload"))
	vAssume(pay <= maxpay)
	pay = vConcrete(pay)
	buf := make([]byte, hl+pay)
	buf[0] = vSymU8("version")
	switch hlmode {
	case 0:
		buf[1] = byte(hl)
	case 1: // declared header shorter than the minimum
		buf[1] = vSymU8("hlshort")
		vAssume(buf[1] < 16)
	default: // declared header not a multiple of 8, or longer than the datagram
		// (+8 would re-read the payload as one more TLV: that is the ntlv+1 case)
		x := vRange("hlextra", 1, 8)
		if x == 8 {
			x = 160
		}
		buf[1] = byte(hl) + byte(x)
	}
	buf[2] = byte(pay >> 8)
	buf[3] = byte(pay)
	for i := 4; i < 16; i++ {
		buf[i] = vSymU8("hdr" + string(rune('a'+i)))
	}
	magic := uint32(buf[4])<<24 | uint32(buf[5])<<16 | uint32(buf[6])<<8 | uint32(buf[7])
	if badmagic {
		vAssume(magic != packetMAGIC)
	} else {
		vAssume(magic == packetMAGIC)
	}
	for k := 0; k < ktlv; {
		k += c15TLV(buf, 16+8*k, string(rune('0'+k)), nfmt, alpha, ktlv-k, kmax)
	}
	for i := hl; i < hl+pay; i++ {
		buf[i] = vSymU8("pay" + string(rune('a'+i-hl)))
	}
	// the datagram may be cut short anywhere
	cut := vRange("cut", 0, ncuts)
	n := len(buf)
	switch cut {
	case 1:
		n = len(buf) - 1
	case 2:
		n = 15
	case 3:
		n = hl
	case 4:
		n = 0
	}
	if n < 0 {
		n = 0
	}
	if n > len(buf) {
		n = len(buf)
	}
	rd := bytes.NewReader(buf[:n])
	p, err := ReadPacket(rd)
	if err != nil {
		vWitness("c15total-rejected")
		return
	}
	vCheck(p != nil, "no error implies a packet")
	consumed := n - rd.Len()
	c15Accessors(p, consumed)
	vObserve("frames", int64(p.Frames()))
	vObserve("consumed", int64(consumed))
	vWitness("c15total-accepted")
}

// verifC15RoundTrip: decode(encode(p)) = p for packets built by the public constructors.
func verifC15RoundTrip() {
	version := vSymU8("version")
	src := vSymU32("source")
	seq := vSymU32("seq")
	off := vSymU32("offset")
	p := NewPacket(version, src, seq, int(off))
	if vRange("withts", 0, 1) == 1 {
		ts := new(PacketTimestamp)
		ts.T = vSymU64("tscount")
		ts.Rate = 1e8
		p.SetTimestamp(ts)
	}
	n := vRange("n", 0, vParam("maxn", 4)) // 0: an empty payload (the packet generator sends such packets)
	dim := int16(vRange("dim", 1, 2))
	var err error
	kind := vRange("kind", 0, 2)
	var d16 []int16
	var d32 []int32
	var d64 []int64
	switch kind {
	case 0:
		d16 = make([]int16, n)
		for i := range d16 {
			d16[i] = vSymI16("d" + string(rune('a'+i)))
		}
		err = p.NewData(d16, []int16{dim})
	case 1:
		d32 = make([]int32, n)
		for i := range d32 {
			d32[i] = vSymI32("d" + string(rune('a'+i)))
		}
		err = p.NewData(d32, []int16{dim})
	default:
		d64 = make([]int64, n)
		for i := range d64 {
			d64[i] = vSymI64("d" + string(rune('a'+i)))
		}
		err = p.NewData(d64, []int16{dim})
	}
	vCheck(err == nil, "NewData accepts small payloads")
	b := p.Bytes()
	vCheck(len(b) == p.Length(), "encoded length = Length()")
	rd := bytes.NewReader(b)
	q, err := ReadPacket(rd)
	vCheck(err == nil && q != nil, "decode of an encoded packet succeeds")
	vCheck(rd.Len() == 0, "decode consumes the whole encoding")
	vCheck(q.version == version, "version round trip")
	vCheck(q.sourceID == src, "source id round trip")
	vCheck(q.SequenceNumber() == p.SequenceNumber(), "sequence number round trip")
	_, qoff := q.ChannelInfo()
	vCheck(uint32(qoff) == off, "channel offset round trip")
	vCheck(q.shape != nil && len(q.shape.Sizes) == 1 && q.shape.Sizes[0] == dim, "shape round trip")
	vCheck(q.Frames() == p.Frames(), "frame count round trip")
	switch kind {
	case 0:
		qd, ok := q.Data.([]int16)
		vCheck((ok && len(qd) == n) || (n == 0 && q.Data == nil), "int16 payload type and length")
		for i := 0; i < n && ok; i++ {
			vCheck(qd[i] == d16[i], "int16 payload sample")
		}
	case 1:
		qd, ok := q.Data.([]int32)
		vCheck((ok && len(qd) == n) || (n == 0 && q.Data == nil), "int32 payload type and length")
		for i := 0; i < n && ok; i++ {
			vCheck(qd[i] == d32[i], "int32 payload sample")
		}
	default:
		qd, ok := q.Data.([]int64)
		vCheck((ok && len(qd) == n) || (n == 0 && q.Data == nil), "int64 payload type and length")
		for i := 0; i < n && ok; i++ {
			vCheck(qd[i] == d64[i], "int64 payload sample")
		}
	}
	if p.timestamp != nil {
		qt := q.Timestamp()
		vCheck(qt != nil && qt.T == p.timestamp.T, "timestamp counter round trip")
	} else {
		vCheck(q.Timestamp() == nil, "no timestamp invented")
	}
	vObserve("len", int64(len(b)))
	vWitness("c15roundtrip-end")
}
