package asyncbufio

// C07 — file writing is order-preserving and flush-complete under any disk timing.

import (
	"runtime"
	"time"
)

type c07Sink struct {
	log []byte
}

func (s *c07Sink) Write(p []byte) (int, error) {
	s.log = append(s.log, p...)
	return len(p), nil
}

// verifC07Order: producer performs a symbolic sequence of Write / Flush and a final Close
// against the writer goroutine under every schedule (bounded number of preemptions; the
// flush ticker may fire at any time). What reaches the underlying writer is always a prefix
// of the accepted writes in order; after Flush/Close returns it is all of them.
func verifC07Order() {
	depth := vRange("depth", 1, vParam("maxdepth", 2))
	sink := &c07Sink{}
	aw := NewWriter(sink, depth, time.Second)
	var accepted []byte
	nops := vParam("nops", 4)
	next := byte(1)
	for k := 0; k < nops; k++ {
		switch vRange("op"+string(rune('0'+k)), 0, 1) {
		case 0:
			n := 1 + vRange("len"+string(rune('0'+k)), 0, 1)
			p := make([]byte, n)
			for i := range p {
				p[i] = next
				next++
			}
			m, err := aw.Write(p)
			if err == nil {
				vCheck(m == n, "an accepted write reports its full length")
				accepted = append(accepted, p...)
			} else {
				vCheck(m == 0, "a rejected write reports zero bytes")
			}
		case 1:
			vCheck(aw.Flush() == nil, "Flush returns no error")
			vCheck(len(sink.log) == len(accepted), "everything accepted before Flush returns is in the file when it returns")
		}
		// at any time: a prefix, in order
		vCheck(len(sink.log) <= len(accepted), "nothing reaches the file that was not accepted")
		for i := 0; i < len(sink.log) && i < len(accepted); i++ {
			vCheck(sink.log[i] == accepted[i], "accepted data reach the file in the order written")
		}
	}
	aw.Close()
	vCheck(len(sink.log) == len(accepted), "everything accepted before Close returns is in the file when it returns")
	for i := 0; i < len(sink.log) && i < len(accepted); i++ {
		vCheck(sink.log[i] == accepted[i], "accepted data reach the file in the order written")
	}
	vObserve("nops", int64(nops)) // (how many writes were accepted depends on the schedule)
	vWitness("c07order-end")
}

// verifC07Drain: the queue at the capacity the file writers use (1000), holding any number
// occ of pending one-byte writes when Flush or Close is called with the writer goroutine
// stalled until then: when the call returns, all occ bytes are in the file, in order.
func verifC07Drain() {
	runtime.GOMAXPROCS(1) // natively: keeps the writer goroutine off the CPU while the queue is filled
	depth := vParam("depth", 1000)
	occ := vRange("occupancy", 0, depth)
	closeIt := vRange("close", 0, 1) == 1
	sink := &c07Sink{}
	aw := NewWriter(sink, depth, time.Hour)
	for i := 0; i < occ; i++ {
		n, err := aw.Write([]byte{byte(i % 251)})
		vCheck(err == nil && n == 1, "a write is accepted while the queue has room")
	}
	if closeIt {
		aw.Close()
	} else {
		vCheck(aw.Flush() == nil, "Flush returns no error")
	}
	vCheck(len(sink.log) == occ, "everything accepted before Flush/Close returns is in the file when it returns")
	for i := 0; i < len(sink.log) && i < occ; i++ {
		if sink.log[i] != byte(i%251) {
			vCheck(false, "accepted data reach the file in the order written")
		}
	}
	if !closeIt {
		aw.Close()
	}
	vObserve("occ", int64(occ))
	vWitness("c07drain-end")
}
